"""C04 - blame is sound and provable cheating is attributed to the cheater."""
import vlib, handler_common as hc, adv

PROP = "C04"


def plan(quick):
    p = [
        {"proto": "frost-sign", "n": 3, "t": 2, "kinds": ["equiv", "fault", "hdr"], "limit": 300 if quick else None},
        {"proto": "frost-keygen", "n": 3, "t": 1, "kinds": ["equiv", "fault", "hdr"], "limit": 400 if quick else None},
        {"proto": "taproot-sign", "n": 3, "t": 2, "kinds": ["equiv", "fault"], "limit": 150 if quick else None},
        {"proto": "toy:b,bm,b", "n": 3, "t": 1, "kinds": ["equiv", "fault", "hdr"], "limit": 250 if quick else None},
        {"proto": "toy:bm,bm", "n": 4, "t": 1, "kinds": ["equiv", "hdr"], "limit": 150 if quick else None},
        {"proto": "cmp-sign", "n": 3, "t": 2, "kinds": ["equiv", "fault"], "limit": 24 if quick else 400},
        {"proto": "cmp-presign", "n": 3, "t": 2, "kinds": ["fault"], "limit": 8 if quick else 200},
    ]
    if not quick:
        p += [
            {"proto": "frost-refresh", "n": 3, "t": 1, "kinds": ["equiv", "fault", "hdr"]},
            {"proto": "frost-sign", "n": 4, "t": 2, "kinds": ["equiv", "fault"], "limit": 1000},
            {"proto": "cmp-keygen", "n": 3, "t": 1, "kinds": ["equiv", "fault"], "limit": 100},
            {"proto": "cmp-presign-online", "n": 3, "t": 2, "kinds": ["fault"], "limit": 60},
        ]
    return p


def run(tier):
    rep = vlib.Report(PROP, "model_checking", tier)
    wd = vlib.workdir(PROP)
    vlib.build(["hadv"])
    quick = tier == "quick"
    states = trans = 0
    # ---- 1. the design: one Byzantine party with valid-looking, failing, undecodable and protocol-detected payloads,
    #         equivocation included, every delivery order; blame invariants of Handler.tla
    models = [("b,b", ("h", "e1", "e2", "bad"), 3), ("b,bm", ("h", "bad", "junk", "sly"), 2)]
    if not quick:
        models += [("bm,bm", ("h", "e1", "bad", "sly"), 3), ("b,b", ("h", "e1", "e2", "bad", "junk", "sly"), 3)]
    for shape, variants, inj in models:
        R, sb, sm = hc.SHAPES[shape]
        consts = hc.handler_consts(["a", "b", "c"], ["a", "b"], R, sb, sm, variants=variants, inject=inj, kindflip=True)
        c = vlib.cfg(consts, init="Init", next_="Next",
                     invariants=["TypeOK", "BlameSound", "EchoNamesNobody", "NoticeBlame", "NoBadAccepted", "NoSplit"])
        r = vlib.tlc(wd, "Handler", c, timeout=3000)
        vlib.tlc_must_pass(r, "Handler.tla blame shape %s" % shape)
        states += r["distinct"]; trans += r["generated"]
        rep.notes.append("Handler.tla, 3 parties / 1 Byzantine, shape %s, variants %s, %d injections: %d distinct states, BlameSound / EchoNamesNobody / NoticeBlame hold" % (shape, ",".join(variants), inj, r["distinct"]))
    if not quick:
        # the order matters: with the echo comparison only in finalize (the code before the fix) TLC must find an honest party blamed
        R, sb, sm = hc.SHAPES["b,b"]
        consts = hc.handler_consts(["a", "b", "c"], ["a", "b"], R, sb, sm, variants=("h", "e1", "e2"), inject=4, echo_first=False)
        r = vlib.tlc(wd, "Handler", vlib.cfg(consts, init="Init", next_="Next", invariants=["BlameSound"]), timeout=3000)
        if r["violated"] != "BlameSound":
            raise vlib.Inconclusive("negative control failed: with EchoFirst=FALSE TLC should violate BlameSound")
        rep.notes.append("negative control: with EchoFirst=FALSE (echo compared only in finalize) TLC violates BlameSound at depth %d" % r["depth"])
    # ---- 2. deviations of the catalogue on the real protocols
    # ---- 3. a presigner whose delta / chi / sigma contribution is inconsistent while its proofs pass (state-level
    #         cheater through MultiHandler), offline / full / online variants, every position of the cheater
    cheats = []
    combos = [("offline", "delta", "b"), ("offline", "chi", "a"), ("full", "gamma", "c"), ("full", "x-chi", "a"), ("online", "k", "c")]
    if not quick:
        combos = [(v, r, b) for v in ("offline", "full") for r in ("delta", "gamma", "x-chi", "chi") for b in ("a", "b", "c")] + \
                 [("online", r, b) for r in ("k", "chi") for b in ("a", "b", "c")]
    for v, rule, byz in combos:
        cheats.append({"kind": "presigncheat", "proto": "cmp-presign", "n": 3, "t": 2, "byz": byz, "variant": v, "rule": rule,
                       "sched": vlib.seed() * 7 + len(cheats)})
    st = adv.run_family(rep, wd, plan(quick), PROP, vlib.seed(), {"C04"}, shards=14, extra_scen=cheats)
    states += st["states"]; trans += st["transitions"]
    rep.cov.update({"distinct_nontrivial": st["distinct"], "states": states, "transitions": trans,
                    "traces_validated_against_impl": st["traces"], "trace_lines": st["lines"], "catalogue_cases": st["catalogue"],
                    "scenarios_applicable": st["applicable"], "scenarios_reached": st["reached"],
                    "rule": "deviations (field alterations, header malformations, equivocation) enumerated by FaultCat.tla are run on real protocols with exactly one deviating party; at every honest party a self-detected error may only name the deviating party, an echo mismatch names nobody, a relayed abort names its origin; every recorded API call is validated against Handler.tla with BlameSound / EchoNamesNobody / NoticeBlame evaluated in every state"})
    if st["reached"] < 2:
        raise vlib.Inconclusive("the scenarios did not reach the code under test")
    return rep.finish()
