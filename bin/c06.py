"""C06 - equivocation on a broadcast round cannot split honest parties."""
import json, os
import vlib, handler_common as hc, adv

PROP = "C06"


def run(tier):
    rep = vlib.Report(PROP, "model_checking", tier)
    wd = vlib.workdir(PROP)
    vlib.build(["hadv"])
    quick = tier == "quick"
    sd = vlib.seed()
    states = trans = 0
    # ---- 1. the design: every equivocation by one of three parties, every delivery order (Handler.tla)
    models = [("b,b", 4), ("b,bm", 3)] if quick else [("b,b", 4), ("b,bm", 4), ("bm,bm", 3), ("b,b,b", 3)]
    for shape, inj in models:
        R, sb, sm = hc.SHAPES.get(shape, (4, {2, 3, 4}, set()))
        consts = hc.handler_consts(["a", "b", "c"], ["a", "b"], R, sb, sm, variants=("h", "e1", "e2"), inject=inj)
        c = vlib.cfg(consts, init="Init", next_="Next", invariants=["TypeOK", "NoSplit", "BlameSound", "EchoNamesNobody", "NoticeBlame"],
                     properties=["ResultStable"])
        r = vlib.tlc(wd, "Handler", c, timeout=3000)
        vlib.tlc_must_pass(r, "Handler.tla equivocation shape %s" % shape)
        states += r["distinct"]; trans += r["generated"]
        rep.notes.append("Handler.tla equivocation, 3 parties / 1 Byzantine, shape %s, %d injections: %d distinct states, NoSplit + BlameSound hold" % (shape, inj, r["distinct"]))
    if not quick:
        # the mechanism is not vacuous: without the echo comparison TLC must find a split
        R, sb, sm = hc.SHAPES["b,b"]
        consts = hc.handler_consts(["a", "b", "c"], ["a", "b"], R, sb, sm, variants=("h", "e1", "e2"), inject=4, echo_check=False)
        r = vlib.tlc(wd, "Handler", vlib.cfg(consts, init="Init", next_="Next", invariants=["NoSplit"]), timeout=3000)
        if r["violated"] != "NoSplit":
            raise vlib.Inconclusive("negative control failed: without the echo check TLC should violate NoSplit")
        rep.notes.append("negative control: with EchoCheck=FALSE TLC violates NoSplit (depth %d)" % r["depth"])
    # ---- 2. every equivocation scenario of the catalogue on the real protocols, validated against Handler.tla
    plan = [
        {"proto": "toy:b,b,b", "n": 3, "t": 1, "kinds": ["equiv"], "scheds": 4, "cross": True},
        {"proto": "toy:b,bm,b", "n": 3, "t": 1, "kinds": ["equiv"], "scheds": 4, "cross": True},
        {"proto": "toy:bm,bm", "n": 4, "t": 1, "kinds": ["equiv"], "scheds": 2, "cross": True},
        {"proto": "frost-keygen", "n": 3, "t": 1, "kinds": ["equiv"], "scheds": 4, "cross": True},
        {"proto": "frost-sign", "n": 3, "t": 2, "kinds": ["equiv"], "scheds": 4, "cross": True},
        {"proto": "taproot-sign", "n": 3, "t": 2, "kinds": ["equiv"], "scheds": 2, "cross": True},
        {"proto": "frost-keygen", "n": 4, "t": 2, "kinds": ["equiv"], "scheds": 2, "cross": True},
        {"proto": "cmp-sign", "n": 3, "t": 2, "kinds": ["equiv"], "limit": 4 if quick else 36, "scheds": 1},
        # presigning with the message (seven rounds, then the signing round): the longest chain of broadcast rounds in the library
        # (quick: one equivocator, rotating with the seed - every round and every assignment of the others)
        {"proto": "cmp-presign-full", "n": 3, "t": 2, "kinds": ["equiv"], "scheds": 1, "only_byz": "abc"[sd % 3] if quick else None},
    ]
    if not quick:
        plan += [
            {"proto": "frost-refresh", "n": 3, "t": 1, "kinds": ["equiv"], "scheds": 4, "cross": True},
            {"proto": "taproot-keygen", "n": 4, "t": 1, "kinds": ["equiv"], "scheds": 3, "cross": True},
            {"proto": "frost-sign", "n": 4, "t": 3, "kinds": ["equiv"], "scheds": 4, "cross": True},
            {"proto": "toy:b,b,b,b", "n": 4, "t": 1, "kinds": ["equiv"], "scheds": 3, "cross": True},
            {"proto": "cmp-keygen", "n": 3, "t": 1, "kinds": ["equiv"], "limit": 12, "scheds": 1},
            {"proto": "cmp-presign", "n": 3, "t": 2, "kinds": ["equiv"], "limit": 12, "scheds": 1},
        ]
    st = adv.run_family(rep, wd, plan, PROP, sd, {"C06"}, shards=12)
    states += st["states"]; trans += st["transitions"]
    rep.cov.update({"states": states, "transitions": trans, "traces_validated_against_impl": st["traces"],
                    "scenarios_applicable": st["applicable"], "scenarios_reached": st["reached"], "distinct_nontrivial": st["distinct"],
                    "trace_lines": st["lines"],
                    "rule": "every (non-final broadcast round, equivocator, assignment of the honest parties to the two payloads) of FaultCat.tla is run on the real protocol with two real instances of the equivocator that diverge at that round; a scenario is non-trivial if the two payloads really differ and an equivocated payload reached an honest party"})
    if st["reached"] == 0:
        raise vlib.Inconclusive("no equivocation scenario reached an honest party")
    rep.assumptions += ["individually valid payloads are obtained by running two real instances of the equivocating party with different randomness from the equivocated round on"]
    return rep.finish()
