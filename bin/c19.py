"""C19 - transcript hashing is injective (framing) and commitments are binding.

Framing.tla : TLC decides that Encode = "CMP-BLAKE" || (len64(dom) dom len64(data) data)* is injective within the bound
              (parser left inverse, all-pairs cardinality, named adversarial relations), rejects the classic wrong framings
              (negative controls), and prints byte-exact vectors and adversarial pairs.
Commit.tla  : TLC computes the verdict of Decommit for every tuple x perturbation and checks Binding / Complete.
framedrv    : feeds every vector / pair / case to the REAL pkg/hash and compares with blake3 over the SPEC's bytes,
              plus the adversarial relations instantiated with the rich real types.
"""
import re
import json, os, concurrent.futures as cf
import vlib

PROP = "C19"
WRONG = ["nolen", "datalen", "domlen", "nodomain"]
FRAMING_INV = ["TypeOK", "Injective", "Functional", "RoundTrip", "PrefixRefused", "AllPairs"]


def fcfg(variant, alphabet, max_items, max_data, pair_below, emit_below, invariants):
    return vlib.cfg({"Variant": variant, "Alphabet": set(alphabet), "MaxItems": max_items, "MaxData": max_data,
                     "PairBelow": pair_below, "EmitBelow": emit_below}, init="Init", next_="Next", invariants=invariants)


def ccfg(variant, alphabet, max_items, max_data, full_below, emit, invariants):
    return vlib.cfg({"Variant": variant, "Alphabet": set(alphabet), "MaxItems": max_items, "MaxData": max_data,
                     "SecBytes": 32, "FullBelow": full_below, "EmitCases": emit}, init="Init", next_="Next", invariants=invariants)


def hx(ints):
    return bytes(ints or []).hex()


def jitems(items):
    if isinstance(items, dict):      # an empty TLA+ sequence may be rendered as {}
        items = []
    return [{"ty": it["ty"], "dom": hx(it["dom"]), "d": hx(it["d"])} for it in items]


class VecSet:
    def __init__(self):
        self.idx, self.vectors, self.pairs, self.pair_keys = {}, [], [], set()

    def vec(self, items, bytes_hex):
        k = json.dumps(items, sort_keys=True)
        i = self.idx.get(k)
        if i is None:
            i = self.idx[k] = len(self.vectors)
            self.vectors.append({"items": items, "bytes": bytes_hex})
        elif bytes_hex and not self.vectors[i]["bytes"]:
            self.vectors[i]["bytes"] = bytes_hex
        elif bytes_hex and self.vectors[i]["bytes"] != bytes_hex:
            raise vlib.Inconclusive("the specification printed two different encodings for one sequence")
        return i

    def pair(self, rel, variant, a, b, same):
        k = (rel, a, b)
        if k not in self.pair_keys:
            self.pair_keys.add(k)
            self.pairs.append({"rel": rel, "variant": variant, "a": a, "b": b, "same": same})


def run_driver(rep, args, out, timeout=600):
    p = vlib.run(args + ["-out", out], timeout=timeout)
    if p.returncode != 0 or not os.path.exists(out):
        raise vlib.Inconclusive("framedrv failed: %s" % (p.stdout + p.stderr)[-3000:])
    return json.load(open(out))


def report_failures(rep, res, extra_key=()):
    """Group the driver's failures by (site, class, ...) and turn each group into one violation."""
    groups = {}
    for f in res["failures"]:
        key = {"site": f["site"], "class": f["class"]}
        d = f.get("detail") or {}
        for fld in extra_key:
            v = d.get(fld) if isinstance(d, dict) else None
            if v is None and isinstance(d, dict) and isinstance(d.get("case"), dict):
                v = d["case"].get(fld)
            if isinstance(v, (str, int, bool)):
                key[fld] = v
        groups.setdefault(json.dumps(key, sort_keys=True), (key, []))[1].append(f)
    for key, fs in groups.values():
        rep.violation(key, "%s (%d such results in mode %s, %d failures in total)" % (fs[0]["what"], len(fs), res["mode"], res["n_failures"]),
                      {"first": fs[0], "more": [x["what"] for x in fs[1:6]]})


def run(tier):
    rep = vlib.Report(PROP, "model_checking", tier)
    wd = vlib.workdir(PROP)
    vlib.build(["framedrv"])
    drv = os.path.join(vlib.HBIN, "framedrv")
    sd = vlib.seed()
    quick = tier == "quick"
    states = trans = 0
    A2, A3 = [0, 68], [0, 41, 68]

    def sub(name):
        d = os.path.join(wd, name)
        os.makedirs(d, exist_ok=True)
        return d

    # ------------------------------------------------------------------ 1. TLC decides injectivity on the model
    checks = [("3 items, data<=1, alphabet {0,'D'}", A2, 3, 1, 3), ("2 items, data<=2, alphabet {0,'D'}", A2, 2, 2, 3)] if quick else \
             [("3 items, data<=2, alphabet {0,'D'}", A2, 3, 2, 3), ("2 items, data<=2, alphabet {0,')','D'}", A3, 2, 2, 3),
              ("3 items, data<=1, alphabet {0,')','D'}", A3, 3, 1, 3)]
    for what, alpha, mi, md, pb in checks:
        r = vlib.tlc(wd, "Framing", fcfg("full", alpha, mi, md, pb, 0, FRAMING_INV), timeout=800)
        vlib.tlc_must_pass(r, "Framing.tla " + what)
        states += r["distinct"]; trans += r["generated"]
        rep.notes.append("Framing.tla (code's framing) %s: %d base sequences, Injective/Functional over all adversarial relatives, parser "
                         "round trip, prefix refusal and all-pairs injectivity over sequences of <%d items hold (%.0fs)" % (what, r["distinct"], pb, r["wall"]))

    # ------------------------------------------------------------------ 2. negative controls (wrong framings must be rejected)
    def neg(v):
        return v, vlib.tlc(sub("neg_" + v), "Framing", fcfg(v, A2, 2, 2, 0, 0, ["Injective"]), workers=2, timeout=300)

    def negc():
        return "commit-nolen", vlib.tlc(sub("neg_commit"), "Commit", ccfg("nolen", A2, 1, 1, 2, False, ["Binding"]), workers=2, timeout=300)

    def wrong_pairs(v):
        return v, vlib.tlc(sub("wrong_" + v), "Framing", fcfg(v, A2, 2, 1, 0, 3, ["Emit"]), workers=1, timeout=300)

    with cf.ThreadPoolExecutor(max_workers=5) as ex:
        futs = [ex.submit(neg, v) for v in WRONG] + [ex.submit(negc)]
        futw = [ex.submit(wrong_pairs, v) for v in WRONG]
        negs = [f.result() for f in futs]
        wrongs = [f.result() for f in futw]
    for v, r in negs:
        want = "Binding" if v.startswith("commit") else "Injective"
        if r["violated"] != want:
            raise vlib.Inconclusive("negative control %s: TLC did not reject the wrong framing (violated=%s): %s" % (v, r["violated"], r["dir"]))
        rep.notes.append("negative control %s: TLC rejects %s after %d states" % (v, want, r["distinct"]))

    # ------------------------------------------------------------------ 3. vectors and pairs printed by the specification
    vs = VecSet()
    emi, emd = (2, 2) if quick else (2, 2)
    alpha = A2 if quick else A3
    r = vlib.tlc(wd, "Framing", fcfg("full", alpha, emi, emd, 0, emi + 1, ["Emit", "EmitDomains"]), workers=1, timeout=800)
    vlib.tlc_must_pass(r, "Framing.tla vector emission")
    states += r["distinct"]; trans += r["generated"]
    doms = vlib.printed(r["out"], "DOMAINS")
    if len(doms) != 1:
        raise vlib.Inconclusive("no DOMAINS table printed")
    for v in vlib.printed(r["out"], "VEC"):
        vs.vec(jitems(v["items"]), hx(v["bytes"]))
    n_spec_pairs = 0
    for p in vlib.printed(r["out"], "PAIR"):
        a = vs.vec(jitems(p["a"]), hx(p["ea"]))
        b = vs.vec(jitems(p["b"]), hx(p["eb"]))
        vs.pair(p["rel"], "full", a, b, bool(p["same"]))
        n_spec_pairs += 1
    if not quick:   # a layer of 3-item sequences
        r = vlib.tlc(wd, "Framing", fcfg("full", A2, 3, 1, 0, 4, ["Emit"]), workers=1, timeout=800)
        vlib.tlc_must_pass(r, "Framing.tla vector emission (3 items)")
        states += r["distinct"]; trans += r["generated"]
        for v in vlib.printed(r["out"], "VEC"):
            vs.vec(jitems(v["items"]), hx(v["bytes"]))
        for p in vlib.printed(r["out"], "PAIR"):
            vs.pair(p["rel"], "full", vs.vec(jitems(p["a"]), hx(p["ea"])), vs.vec(jitems(p["b"]), hx(p["eb"])), bool(p["same"]))
            n_spec_pairs += 1
    n_exact = len(vs.vectors)
    # pairs that WOULD collide if the code framed like one of the wrong variants (their bytes are not used)
    for v, r in wrongs:
        if "Error:" in r["out"] and not vlib.printed(r["out"], "PAIR"):
            raise vlib.Inconclusive("pair emission for variant %s failed: %s" % (v, r["dir"]))
        k = 0
        for p in vlib.printed(r["out"], "PAIR"):
            if p["ea"] == p["eb"] and not p["same"]:      # a collision of the wrong framing: the interesting ones
                vs.pair(p["rel"], v, vs.vec(jitems(p["a"]), ""), vs.vec(jitems(p["b"]), ""), False)
                k += 1
        rep.notes.append("wrong framing %s: %d sequence pairs that collide under it are replayed on the real hash" % (v, k))
    vf = os.path.join(wd, "vectors.json")
    with open(vf, "w") as fh:
        json.dump({"vectors": vs.vectors, "pairs": vs.pairs}, fh)
    with open(os.path.join(wd, "domains.json"), "w") as fh:
        json.dump(doms[0], fh)
    rep.notes.append("specification printed %d distinct sequences (%d with exact bytes) and %d distinct adversarial pairs" % (len(vs.vectors), n_exact, len(vs.pairs)))

    # inventory: every implementer of hash.WriterToWithDomain in the tree under test against the kinds the run covers
    covered = {"RID": "rid", "ThresholdWrapper": "threshold", "SigningMessage": "sigmsg", "Number": "round", "BytesWithDomain": "wd",
               "hash.Commitment": "commitment", "Decommitment": "decommitment", "Exponent": "exponent", "Parameters": "pedersen",
               "paillier.Ciphertext": "ciphertext", "elgamal.Ciphertext": "elgamal", "PublicKey": "paillierpk", "sch.Commitment": "schcommit",
               "ID": "id", "IDSlice": "idslice", "Public": "cmppublic"}
    elsewhere = {"Config": "CMP Config: the session-tag check C09 (Session.tla AuxFields) decides what it must bind",
                 "messageHash": "unexported FROST type, plain bytes under its own tag; exercised through signing (C11)"}
    found, unknown = [], []
    pat = re.compile(r"^func \((?:\w+ )?\*?(\w+)\) Domain\(\) string", re.M)
    for root, _, files in os.walk(vlib.REPO):
        if "/.git" in root:
            continue
        for f in files:
            if f.endswith(".go") and not f.endswith("_test.go"):
                src = open(os.path.join(root, f), errors="replace").read()
                for m in pat.finditer(src):
                    t, pkg = m.group(1), os.path.basename(root)
                    key = t if t in covered or t in elsewhere else "%s.%s" % (pkg, t)
                    found.append(key)
                    if key not in covered and key not in elsewhere:
                        unknown.append("%s (%s)" % (key, os.path.relpath(os.path.join(root, f), vlib.REPO)))
    rep.notes.append("writer inventory: %d implementers of Domain() in the tree; %d covered by the framing run, %d decided elsewhere (%s)%s"
                     % (len(found), sum(1 for k in found if k in covered), sum(1 for k in found if k in elsewhere),
                        "; ".join("%s: %s" % kv for kv in sorted(elsewhere.items())),
                        "; NOT COVERED (new type): " + ", ".join(unknown) if unknown else ""))
    if unknown:
        rep.assumptions.append("hash writers not covered by this run: " + ", ".join(unknown))
    rv = run_driver(rep, [drv, "vectors", "-in", vf], os.path.join(wd, "vectors.res.json"))
    rr = run_driver(rep, [drv, "rich", "-domains", os.path.join(wd, "domains.json"), "-seed", str(sd)], os.path.join(wd, "rich.res.json"))

    # ------------------------------------------------------------------ 4. commitments
    cmi, cmd_, cfb = (2, 1, 2) if quick else (2, 2, 2)
    r = vlib.tlc(wd, "Commit", ccfg("full", A2, cmi, cmd_, cfb, True, ["TypeOK", "Binding", "Complete", "Refusals", "Emit"]), workers=1, timeout=800)
    vlib.tlc_must_pass(r, "Commit.tla")
    states += r["distinct"]; trans += r["generated"]
    cases = vlib.printed(r["out"], "CASE")
    if not cases:
        raise vlib.Inconclusive("Commit.tla printed no cases")
    cfile = os.path.join(wd, "cases.jsonl")
    n_acc = 0
    with open(cfile, "w") as fh:
        for c in cases:
            for f in ("ctx0", "items0", "ctx1", "items1"):
                c[f] = jitems(c[f])
            c["pre"] = hx(c["pre"])
            n_acc += 1 if c["accept"] else 0
            fh.write(json.dumps(c) + "\n")
    rep.notes.append("Commit.tla: %d states, %d cases (%d accepted by the specification), Binding / Complete / Refusals hold" % (r["distinct"], len(cases), n_acc))
    rc = run_driver(rep, [drv, "commit", "-in", cfile, "-seed", str(sd)], os.path.join(wd, "commit.res.json"))

    # ------------------------------------------------------------------ verdict
    errors = rv["errors"] + rr["errors"] + rc["errors"]
    report_failures(rep, rv, extra_key=("rel", "route"))
    report_failures(rep, rr)
    report_failures(rep, rc, extra_key=("grp", "cmod"))
    if errors and not rep.violations:
        raise vlib.Inconclusive("the driver could not evaluate some cases: %s" % errors[:5])
    if errors:
        rep.notes.append("driver errors: %s" % errors[:5])
    confirmed = rv["confirmed"] + rr["confirmed"] + rc["confirmed"]
    for res in (rv, rr, rc):
        for s in res["samples"][:2]:
            rep.sample(s)
    rep.cov.update({
        "states": states, "transitions": trans, "traces_validated_against_impl": confirmed, "exhaustive": True,
        "vectors_byte_exact": rv["counts"].get("vectors_byte_exact", 0),
        "adversarial_pairs_on_real_hash": sum(v for k, v in rv["counts"].items() if k.startswith("pairs:")),
        "rich_sequences_on_real_hash": rr["counts"].get("distinct_sequences", 0),
        "commit_cases_on_real_code": rc["counts"].get("cases", 0),
        "real_commit_calls": rc["counts"].get("real_commits", 0),
        "relations": sorted(k[6:] for k in rv["counts"] if k.startswith("pairs:")),
        "rule": "every sequence TLC enumerates within the bound (and every adversarial relative of it) is printed with its exact framed "
                "bytes and hashed by the real WriteAny: digest == blake3(spec bytes), equal digests only for equal (domain,data) sequences; "
                "the same relations instantiated with the rich real types: globally no two different sequences share a digest; every "
                "commit/decommit case of Commit.tla replayed on the real Commit/Decommit/Validate"})
    rep.add_counts(evaluations=rv["evaluations"] + rr["evaluations"] + rc["evaluations"])
    rep.assumptions += [
        "BLAKE3 (64-byte XOF output) is collision resistant and never outputs 0^64; the model represents a digest by its preimage",
        "crypto/rand yields unpredictable non-zero decommitments; for the byte-exact replay of Commit crypto/rand.Reader is pinned to a constant pattern",
        "the model bounds item count, data length and alphabet; lengths are below 65536 so only the two low bytes of the uint64 length prefix vary",
        "a saferith.Nat hashes its announced length, so numerically equal Nats of different announced size hash differently (not a collision)",
        "the injectivity of what a type itself writes (WriteTo / MarshalBinary) is only probed for the rich types listed in the driver; "
        "IDSlice.WriteTo without per-id lengths is a known issue tracked under C09 (key site=IDSlice.WriteTo class=id-boundary)"]
    return rep.finish()
