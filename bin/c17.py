"""C17 - handler lifecycle is well-defined and safe under concurrent use."""
import json, os, re, subprocess
import vlib, handler_common as hc

PROP = "C17"
PUBLIC = ["Accept", "CanAccept", "Listen", "Result", "Stop"]


def method_bodies(src, typ):
    """name -> body text of every method with receiver (h *typ)"""
    out = {}
    for m in re.finditer(r"^func \(h \*%s\) (\w+)\(.*\{[ \t]*$" % typ, src, re.M):
        i = m.end()
        depth = 1
        j = i
        while depth and j < len(src):
            if src[j] == "{":
                depth += 1
            elif src[j] == "}":
                depth -= 1
            j += 1
        out[m.group(1)] = src[i:j - 1]
    return out


def fields_of(src, typ):
    m = re.search(r"type %s struct \{(.*?)\n\}" % typ, src, re.S)
    return [l.split()[0] for l in m.group(1).splitlines() if l.strip() and not l.strip().startswith("//")]


def lockset_table(path, typ):
    """extracted mechanically from the working tree: does the method lock; which fields it reads / writes (transitively)"""
    src = open(path).read()
    bodies = method_bodies(src, typ)
    flds = [f for f in fields_of(src, typ) if f != "mtx"]
    def access(name, seen):
        body = bodies.get(name, "")
        rd, wr = set(), set()
        for f in flds:
            if re.search(r"h\.%s\b" % f, body):
                rd.add(f)
            if re.search(r"h\.%s(\[[^\]]*\])*\s*(=[^=]|\+\+|--)" % f, body) or re.search(r"close\(h\.%s\)|delete\(h\.%s" % (f, f), body) or re.search(r"h\.%s <- " % f, body):
                wr.add(f)
        for callee in re.findall(r"h\.(\w+)\(", body):
            if callee in bodies and callee not in seen:
                r2, w2 = access(callee, seen | {callee})
                rd |= r2; wr |= w2
        return rd, wr
    table = {}
    for name in PUBLIC:
        if name not in bodies:
            continue
        rd, wr = access(name, {name})
        table[name] = {"locked": bool(re.match(r"\s*h\.mtx\.Lock\(\)", bodies[name])), "reads": sorted(rd), "writes": sorted(wr)}
    return table


def data_module(typ, table):
    ms = sorted(table)
    fn = lambda key: "[m \\in Methods |-> CASE " + " [] ".join('m = "%s" -> %s' % (m, vlib.tla(set(table[m][key]))) for m in ms) + "]"
    locked = "[m \\in Methods |-> CASE " + " [] ".join('m = "%s" -> %s' % (m, "TRUE" if table[m]["locked"] else "FALSE") for m in ms) + "]"
    return "---- MODULE LifecycleData ----\nHandler == \"%s\"\nMethods == %s\nLocked == %s\nReads == %s\nWrites == %s\n====\n" % (
        typ, vlib.tla(set(ms)), locked, fn("reads"), fn("writes"))


def run(tier):
    rep = vlib.Report(PROP, "model_checking", tier)
    wd = vlib.workdir(PROP)
    vlib.build(["hadv"])
    vlib.build(["racedrv"], race=True)
    quick = tier == "quick"
    sd = vlib.seed()
    states = trans = 0
    # ---- 1. atomic layer (the design): Stop / notices / late messages at every point of a session, terminal states stable
    for shape, dup in ([("m", 0)] if quick else [("m", 1), ("b,b", 0)]):
        R, sb, sm = hc.SHAPES[shape]
        consts = hc.handler_consts(["a", "b", "c"], ["a", "b", "c"], R, sb, sm, dup=dup, stop=True)
        r = vlib.tlc(wd, "Handler", vlib.cfg(consts, spec="Spec", invariants=["TypeOK", "NoticeBlame"], properties=["ResultStable", "Isolation"]), timeout=3000)
        vlib.tlc_must_pass(r, "Handler.tla with Stop, shape %s" % shape)
        states += r["distinct"]; trans += r["generated"]
        rep.notes.append("Handler.tla with user Stop at every point, shape %s: %d distinct states; once a party is done / aborted its result, error kind and culprits never change and later messages change nothing" % (shape, r["distinct"]))
    # ---- 2. lockset layer: table extracted from the working tree, TLC predicts which pairs can race
    pairs = []
    for typ, path in (("MultiHandler", vlib.REPO + "/pkg/protocol/handler.go"), ("TwoPartyHandler", vlib.REPO + "/pkg/protocol/twoparty.go")):
        table = lockset_table(path, typ)
        if len(table) < 4:
            raise vlib.Inconclusive("could not extract the method table of %s" % typ)
        dd = os.path.join(wd, "ls_" + typ)
        os.makedirs(dd, exist_ok=True)
        df = os.path.join(dd, "LifecycleData.tla")
        open(df, "w").write(data_module(typ, table))
        r = vlib.tlc(wd, "Lifecycle", "INIT Init\nNEXT Next\nINVARIANTS Emit Agreement\nCHECK_DEADLOCK FALSE\n", files=[df], workers=1, timeout=600)
        vlib.tlc_must_pass(r, "Lifecycle.tla for %s" % typ)
        states += r["distinct"]; trans += r["generated"]
        ps = vlib.printed(r["out"], "PAIR")
        racy = [p for p in ps if p["racy"]]
        rep.notes.append("Lifecycle.tla %s: lockset table extracted from the source (%s); %d ordered pairs, %d predicted racy%s" % (
            typ, ", ".join("%s:%s" % (m, "locked" if table[m]["locked"] else "UNLOCKED") for m in sorted(table)), len(ps), len(racy),
            (": " + ", ".join("%s||%s on %s" % (p["a"], p["b"], p["fields"]) for p in racy[:6])) if racy else ""))
        seen = set()
        for p in ps:
            k = tuple(sorted((p["a"], p["b"])))
            if k in seen:
                continue
            seen.add(k)
            pairs.append({"handler": typ, "a": p["a"], "b": p["b"], "racy": p["racy"]})
    # ---- 3. every pair against a live real session under the race detector
    pf = os.path.join(wd, "pairs.json")
    json.dump(pairs, open(pf, "w"))
    out = os.path.join(wd, "race.json")
    env = dict(vlib.GOENV, GORACE="halt_on_error=0 exitcode=66")
    p = subprocess.run([os.path.join(vlib.HBIN, "racedrv-race"), "-pairs", pf, "-out", out, "-seed", str(sd), "-storm", "700" if quick else "6000",
                        "-pooled", "1" if quick else "3", "-shared", "3" if quick else "9", "-primes", os.path.join(vlib.VERIF, "fixtures", "safeprimes.json")],
                       env=env, capture_output=True, text=True, timeout=3000)
    if not os.path.exists(out):
        raise vlib.Inconclusive("racedrv failed: %s" % (p.stdout + p.stderr)[-2000:])
    # attribute race reports to the pair in progress
    cur, races = None, {}
    for line in p.stderr.splitlines():
        if line.startswith("PAIR-BEGIN"):
            cur = tuple(line.split()[1:4])
        elif line.startswith("PAIR-END"):
            cur = None
        elif "WARNING: DATA RACE" in line and cur:
            races[cur] = races.get(cur, 0) + 1
    for res in json.load(open(out)):
        pr = res["pair"]
        key = (pr["handler"], pr["a"], pr["b"] if "storm" not in pr["b"] else "storm")
        if races.get(key):
            rep.violation({"what": "data-race", "handler": pr["handler"]},
                          "%s: %s and %s called from two goroutines on a live session: the race detector reports %d data race(s)" % (pr["handler"], pr["a"], pr["b"], races[key]),
                          {"pair": pr, "stderr_excerpt": "\n".join([l for l in p.stderr.splitlines() if "multi-party-sig" in l][:12])})
        if res["problem"]:
            rep.violation({"what": "concurrent-lifecycle", "handler": pr["handler"]},
                          "%s: %s and %s called concurrently: %s" % (pr["handler"], pr["a"], pr["b"], res["problem"]), res)
    rep.add_counts(evaluations=len(pairs))
    rep.sample({"kind": "method pair run under the race detector", "pair": pairs[0]})
    # ---- 3b. every causal delivery order of one handler in which one peer's message fails verification (HandlerLocal.tla,
    #          bad mode): whether the failing message is met on arrival or, having arrived early, when its round is entered,
    #          the handler must end exactly as the specification says (error naming that peer), without a panic, its
    #          channel closed exactly once
    vlib.build(["hsim"])
    # (a duplicate delivery multiplies the orders: with it the shape bm,bm has 2.5 M orders per failing slot, ten minutes of TLC
    #  and as much of replay each - the first complete thorough pass spent 90 minutes there; duplicates on the small shapes only)
    for shape, n, proto, dup in ([("b,bm", 3, "toy:b,bm", 0)] if quick else [("b,bm", 3, "toy:b,bm", 1), ("bm,bm", 3, "toy:bm,bm", 0), ("b,b,b", 3, "toy:b,b,b", 0), ("m", 3, "toy:m", 1)]):
        if shape not in hc.SHAPES:
            continue
        bs, bg, bn, bf = hc.bad_orders(wd, rep, shape, n, proto, sd, dup=dup)
        states += bs; trans += bg
        rep.add_counts(evaluations=bn)
        rep.notes.append("HandlerLocal.tla bad mode, shape %s: %d delivery orders with one failing message replayed on the real handler (%s)" % (shape, bn, proto))
        for f in bf:
            rep.violation({"proto": proto, "what": "bad-order-" + f["what"]},
                          "%s, failing message in slot %s: replaying a TLC-enumerated delivery order on the real handler: %s (%s)" % (proto, f["slot"], f["what"], f["detail"]), f)
    # ---- 4. Stop at every point of real sessions + calls after the end, validated against Handler.tla
    scen = []
    for proto, n, t, dl in (("frost-keygen", 3, 1, 14), ("frost-sign", 3, 2, 8), ("xor", 3, 0, 5), ("toy:b,bm,b", 3, 1, 20), ("taproot-keygen", 3, 1, 14)):
        for who in ("a", "b", "c"):
            for after in range(0, dl, 1 if not quick else 2):
                scen.append({"id": len(scen), "kind": "stop", "proto": proto, "n": n, "t": t, "byz": "", "who": who, "after": after, "sched": sd * 53 + len(scen)})
        scen.append({"id": len(scen), "kind": "honest", "proto": proto, "n": n, "t": t, "byz": "", "sched": sd + len(scen)})
    if not quick:
        for after in range(0, 30, 3):
            scen.append({"id": len(scen), "kind": "stop", "proto": "cmp-sign", "n": 3, "t": 2, "byz": "", "who": "b", "after": after, "sched": sd + len(scen)})
    # sessions that END IN AN ERROR inside a round (a Finalize that fails, in both handlers): a peer that computes with
    # inconsistent inputs while all its messages are well-formed (DoernerAlg.tla / FrostAlg.tla deviations) - the honest
    # handler must end cleanly (no panic in Accept / CanAccept / Result afterwards, channel closed once)
    for k, (rule, byz) in enumerate((r, b) for r in ("share", "public", "ot", "kinv") for b in ("a", "b")):
        scen.append({"id": len(scen), "kind": "doernercheat", "proto": "doerner-sign", "n": 2, "t": 1, "byz": byz, "rule": rule, "sched": sd * 3 + k})
    for k, (pr, rule, byz) in enumerate((pr, r, b) for pr in ("frost-sign", "taproot-sign") for r in ("z", "nonce", "share") for b in ("a", "c")):
        if quick and (k + sd) % 2:
            continue
        scen.append({"id": len(scen), "kind": "frostcheat", "proto": pr, "n": 3, "t": 1, "byz": byz, "rule": rule, "sched": sd * 3 + k})
    outcomes, problems, stats = hc.run_adversarial(wd, scen, "life", sd, shards=10)
    states += stats["distinct"]; trans += stats["generated"]
    for i, o in outcomes.items():
        for v in o.get("viol") or []:
            if v["prop"] in ("C17",) or v["what"] in ("panic", "hang", "process-killed"):
                s = scen[i]
                what = "Stop by %s after %s deliveries" % (s.get("who"), s.get("after")) if s["kind"] in ("stop", "honest") else "%s by %s (%s)" % (s["kind"], s.get("byz"), s.get("rule"))
                rep.violation({"proto": s["proto"], "what": v["what"]}, "%s, %s: %s" % (s["proto"], what, v["detail"]), {"scenario": s, "violation": v})
    for pr in problems:
        g = pr["group"]
        rep.violation({"proto": g["proto"], "what": "trace-" + (pr["violated"] or "rejected")},
                      "%s: a recorded real execution with Stop / late calls is not a behaviour of Handler.tla: %s at trace line %s" % (g["proto"], pr["violated"] or "no action matches", pr["line"]),
                      {"event": pr["event"], "scenario": pr["scenario"], "trace_file": g["file"]})
    rep.add_counts(evaluations=len(scen))
    rep.sample({"scenario": scen[3], "outcome": outcomes.get(3)})
    rep.cov.update({"states": states, "transitions": trans, "traces_validated_against_impl": stats["traces"] + len(pairs),
                    "trace_lines": stats["lines"], "method_pairs": len(pairs),
                    "rule": "atomic layer: Handler.tla with Stop, abort notices and late messages at every point (ResultStable, Isolation); lockset layer: Lifecycle.tla over the lock / field table extracted from the working tree predicts the racy method pairs, and EVERY pair is run from two goroutines against a live real session (FROST keygen, xor, Doerner keygen) under Go's race detector; Stop at every delivery position of real sessions followed by Stop again, late and duplicate messages and Result twice, recorded and validated against Handler.tla"})
    rep.assumptions += ["data races are observed by the Go race detector on the executions the harness generates; the lockset model only predicts them"]
    return rep.finish()
