#!/usr/bin/env python3
"""Writes /verif/seeded/INDEX.md from the meta.json files."""
import json, os, glob
rows = []
for d in sorted(glob.glob("/verif/seeded/*/")):
    name = os.path.basename(d.rstrip("/"))
    mf = os.path.join(d, "meta.json")
    if not os.path.exists(mf):
        rows.append((name, "?", "(hand-made during construction; see DESIGN.md §8)", "", ""))
        continue
    m = json.load(open(mf))
    notes = ""
    nf = os.path.join(d, "notes.md")
    if os.path.exists(nf):
        txt = " ".join(l.strip() for l in open(nf).read().splitlines() if l.strip() and not l.startswith("#"))
        notes = txt[:260]
    det = m.get("detection") or {}
    how = "; ".join("%s: %s" % (p, (x["first"] or ["(exit %s)" % x["rc"]])[0][:150]) for p, x in det.items() if x["rc"] == 1)
    missed = ", ".join(p for p, x in det.items() if x["rc"] != 1)
    rows.append((name, m.get("property", "?"), notes, "confirmed" if m.get("confirmed") else "NOT confirmed", (("detected by " + ", ".join(m.get("detected_by") or [])) if m.get("detected_by") else "MISSED") + (" | " + how if how else "") + ((" | not flagged by: " + missed) if missed and m.get("detected_by") else "")))
with open("/verif/seeded/INDEX.md", "w") as fh:
    fh.write("# Seeded breaking changes and which checks catch them\n\n")
    fh.write("Every entry was produced by a fresh sub-agent that saw only the property text and a scratch worktree (or is the revert of a `fix:` commit), "
             "confirmed by `bin/seedeval.py` (applies, builds with and without the tag, demonstration fails with the change and passes without), and then run against the checks "
             "from a scratch copy of /verif whose harness is built against a scratch checkout of /repo carrying the patch (round 1 was evaluated with the patch applied to /repo itself and undone afterwards). "
             "`-agent-` = first round, `-agent2-` = second round (the authors were told which sites the first round had used).\n\n")
    fh.write("| name | property | what it is (from the author's notes) | confirmation | checks |\n|---|---|---|---|---|\n")
    for r in rows:
        fh.write("| %s | %s | %s | %s | %s |\n" % tuple(str(x).replace("|", "/").replace("\n", " ") for x in r))
    n = len([r for r in rows if r[3] == "confirmed"])
    d = len([r for r in rows if r[3] == "confirmed" and r[4].startswith("detected")])
    fh.write("\n%d confirmed agent-made changes, %d detected by at least one check.\n" % (n, d))
print(open("/verif/seeded/INDEX.md").read()[-400:])
