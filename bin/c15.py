"""C15 - stored key material round-trips; malformed material is refused.

(a) KeyLife.tla histories that contain a store/restore and end in a probe that USES the restored material, executed
    on the real protocols by klife (FROST, Taproot, Doerner, CMP): the restored object must equal the original and the
    later signing session / reconstruction must work with it;
(b) Codec.tla: type x field x corruption x (n, t) with the expected class computed by the specification (TLC), the
    design facts of the lattice and the negative control (a decoder without validation breaks AcceptedIsValid);
(c) codecdrv: every case applied to the documented encoding of real key material, presignatures, signatures and wire
    messages, decoded by the documented decoder and judged by independent predicates."""
import json, os, subprocess, time
from concurrent.futures import ThreadPoolExecutor
import vlib, keylife as kl

PROP = "C15"


def _pick(h):
    p = h["probe"]["pick"]
    if isinstance(p, list):
        return {i + 1: v for i, v in enumerate(p)}
    return {int(k): v for k, v in p.items()}


def uses_restored(h):
    """every participant of the probe uses the same version, and the party that stored / restored uses that (or a later) one
    (KeyLife.tla also expects "ok" for reconstructions from different versions whose share VALUES coincide - in GF(7) they
    often do by accident, on the real curve they do not: such histories say nothing about a restore)"""
    pk, S, ver = _pick(h), h["probe"]["S"], 1
    if len(set(pk[x] for x in S)) != 1:
        return False
    for o in h["ops"]:
        if o["op"] == "store":
            if o["who"] in S and pk.get(o["who"], 0) >= ver:
                return True
        else:
            ver += 1
    return False


def twin(h):
    t = json.loads(json.dumps(h))
    t["ops"] = [o for o in t["ops"] if o["op"] != "store"]
    return t


def codec_cases(wd, ns, ts):
    c = vlib.cfg({"Ns": set(ns), "Ts": set(ts), "Decoder": "validating", "EmitCases": True}, init="Init", next_="Next",
                 invariants=["AcceptedIsValid", "RejectedIsInformed", "Emit"])
    r = vlib.tlc(wd, "Codec", c, workers=1, timeout=900)
    vlib.tlc_must_pass(r, "Codec.tla (design facts, reference decoder)")
    cases = vlib.printed(r["out"], "CASE")
    if len(cases) != r["distinct"] - 1:
        raise vlib.Inconclusive("Codec.tla printed %d cases for %d states" % (len(cases), r["distinct"]))
    return cases, r


def negative_control(wd, ns, ts):
    c = vlib.cfg({"Ns": set(ns), "Ts": set(ts), "Decoder": "structural", "EmitCases": False}, init="Init", next_="Next",
                 invariants=["AcceptedIsValid"])
    r = vlib.tlc(wd, "Codec", c, workers=1, timeout=900)
    if r["violated"] != "AcceptedIsValid":
        raise vlib.Inconclusive("negative control failed: a decoder without validation should violate AcceptedIsValid in Codec.tla")
    return r


def run(tier):
    rep = vlib.Report(PROP, "fault_enumeration", tier)
    wd = vlib.workdir(PROP)
    vlib.build(["klife", "codecdrv"])
    quick = tier == "quick"
    sd = vlib.seed()
    states = trans = 0

    # ---- (b) the lattice
    ns, ts = ((2, 3), (0, 1, 2)) if quick else ((2, 3, 4, 5), (0, 1, 2, 3, 4))
    cases, r = codec_cases(wd, ns, ts)
    states += r["distinct"]; trans += r["generated"]
    rn = negative_control(wd, ns, ts)
    rep.notes.append("Codec.tla: %d cases; LatticeSound, RuleCovered, FieldCovered, ThresholdBoundary, DropBoundary and AcceptedIsValid hold; "
                     "negative control: Decoder=structural violates AcceptedIsValid" % len(cases))
    cf = os.path.join(wd, "cases.jsonl")
    with open(cf, "w") as fh:
        for c in cases:
            fh.write(json.dumps(c) + "\n")

    # ---- (c) the cases on the real encodings (runs while the histories are produced and executed)
    cout = os.path.join(wd, "codecdrv.json")
    cmd = [os.path.join(vlib.HBIN, "codecdrv"), "-cases", cf, "-out", cout, "-seed", str(sd), "-owners", "1" if quick else "2",
           "-messages", "6" if quick else "14", "-workers", "6" if quick else "12"]
    t0 = time.time()
    cproc = subprocess.Popen(cmd, env=vlib.GOENV, stdout=subprocess.PIPE, stderr=subprocess.PIPE, text=True)

    # ---- (a) histories with a store / restore whose probe uses the restored material
    if quick:
        plan = [("frost", 2, 1, False, 3), ("frost", 3, 1, False, 2), ("taproot", 3, 2, True, 2), ("taproot", 2, 1, True, 3), ("doerner", 2, 1, False, 3)]
        per, cmp_plan = 60, [(2, 1, 3, 3)]
    else:
        plan = [("frost", 2, 1, False, 3), ("frost", 3, 1, False, 3), ("frost", 3, 2, False, 2), ("frost", 4, 2, False, 2), ("frost", 3, 0, False, 2),
                ("taproot", 2, 1, True, 3), ("taproot", 3, 2, True, 3), ("taproot", 4, 1, True, 2), ("doerner", 2, 1, False, 3)]
        per, cmp_plan = 400, [(2, 1, 3, 10), (3, 1, 2, 8), (3, 2, 2, 4)]

    def hist(job):
        scheme, n, t, eveny, maxops = job
        allh, r = kl.histories(wd, n, t, additive=(scheme == "doerner"), eveny=eveny, maxops=maxops)
        hs = [h for h in allh if kl.has_op(h, "store") and h["probe"]["expect"] == "ok" and uses_restored(h)
              and (t > 0 or scheme == "doerner" or not kl.has_op(h, "refresh"))]
        return job, hs, r

    jobs = list(plan) + [("cmp", n, t, False, mo) for n, t, mo, _ in cmp_plan]
    with ThreadPoolExecutor(max_workers=6) as ex:
        got = list(ex.map(hist, jobs))
    worlds = []
    for (scheme, n, t, eveny, maxops), hs, r in got:
        states += r["distinct"]; trans += r["generated"]
        if scheme == "cmp":
            k = [x[3] for x in cmp_plan if x[0] == n and x[1] == t][0]
            # signing costs seconds: signing probes only, few signers; both a derivation and a refresh before / after the store
            hs = [h for h in hs if h["probe"]["kind"] == "sign" and len(h["probe"]["S"]) <= 2]
            a = kl.sample([h for h in hs if not kl.has_op(h, "refresh")], k - k // 3, sd, "c15cmp-d%d%d" % (n, t))
            b = kl.sample([h for h in hs if kl.has_op(h, "refresh")], k // 3, sd, "c15cmp-r%d%d" % (n, t))
            worlds.append({"scheme": "cmp", "n": n, "t": t, "ids": "short", "deal": True, "hists": a + b})
        else:
            sign = [h for h in hs if h["probe"]["kind"] == "sign"]
            rec = [h for h in hs if h["probe"]["kind"] != "sign"]
            sel = kl.sample(sign, per - per // 4, sd, "c15s%s%d%d" % (scheme, n, t)) + kl.sample(rec, per // 4, sd, "c15r%s%d%d" % (scheme, n, t))
            shape = "utf8" if scheme == "taproot" else ("long32" if (n + t + sd) % 2 else "short")
            worlds.append({"scheme": scheme, "n": n, "t": t, "ids": shape, "hists": sel})
    if not any(w["hists"] for w in worlds):
        raise vlib.Inconclusive("KeyLife.tla produced no history with a store/restore that the probe uses")
    results = kl.run_worlds(wd, worlds, sd)

    st = {"evaluations": 0}
    suspects = []   # (world, violation) of probes that failed in a history with a restore
    for w, res in results:
        st["evaluations"] += res["evaluations"]
        for k, v in (res.get("stats") or {}).items():
            st[k] = st.get(k, 0) + v
        for v in res.get("violations") or []:
            if v["prop"] == "C15":
                if w["scheme"] == "cmp" and w.get("deal") and v["what"] == "roundtrip-differs" and "p=mod:" in v["detail"] and "p=nil" in v["detail"]:
                    # trusted-dealer material holds the OTHER parties' Paillier keys with their factors (the dealer knows them); a restored
                    # config rebuilds them from N. Same values, different cache: cmp.Config is compared by value in codecdrv instead.
                    st["cmp_dealer_cache_differences_ignored"] = st.get("cmp_dealer_cache_differences_ignored", 0) + 1
                    continue
                rep.violation({"scheme": w["scheme"], "class": v["what"]},
                              "%s n=%d t=%d ids=%s: %s" % (w["scheme"], w["n"], w["t"], w["ids"], v["detail"]),
                              {"violation": v, "history": json.loads(v["hist"]) if v.get("hist") else None})
            elif (v["prop"] == "C01" and v["what"] in ("honest-session-fails", "invalid-signature", "signatures-differ")) or \
                 (v["prop"] == "C02" and v["what"] == "does-not-reconstruct") or (v["prop"] == "C05" and v["what"] == "crash"):
                suspects.append((w, v))
        if res.get("samples"):
            rep.sample({"part": "history with store/restore", "scheme": w["scheme"], "n": w["n"], "t": w["t"], "ids": w["ids"], "history": res["samples"][0]})
    if suspects:
        # does the same history WITHOUT the store/restore fail as well? then it is not the restore (and belongs to C01 / C02)
        tw = {}
        for w, v in suspects:
            key = (w["scheme"], w["n"], w["t"], w["ids"], bool(w.get("deal")))
            tw.setdefault(key, {"scheme": w["scheme"], "n": w["n"], "t": w["t"], "ids": w["ids"], "deal": w.get("deal"), "hists": []})
            th = twin(json.loads(v["hist"]))
            if th not in tw[key]["hists"]:
                tw[key]["hists"].append(th)
        tres = kl.run_worlds(wd, list(tw.values()), sd)
        failing = set()
        for w, res in tres:
            for v in res.get("violations") or []:
                if v["prop"] in ("C01", "C02", "C05") and v.get("hist"):
                    failing.add((w["scheme"], w["n"], w["t"], json.dumps(json.loads(v["hist"]), sort_keys=True)))
        for w, v in suspects:
            th = json.dumps(twin(json.loads(v["hist"])), sort_keys=True)
            if (w["scheme"], w["n"], w["t"], th) in failing:
                st["probe_failures_not_due_to_restore"] = st.get("probe_failures_not_due_to_restore", 0) + 1
                continue
            rep.violation({"scheme": w["scheme"], "class": "restored-material-fails"},
                          "%s n=%d t=%d: the probe works with the original objects but fails after one party restored its material from its encoding: %s"
                          % (w["scheme"], w["n"], w["t"], v["detail"]), {"violation": v, "history": json.loads(v["hist"])})

    # ---- (c) results
    try:
        so, se = cproc.communicate(timeout=1500)
    except subprocess.TimeoutExpired:
        cproc.kill()
        raise vlib.Inconclusive("codecdrv timed out")
    if cproc.returncode != 0:
        raise vlib.Inconclusive("codecdrv failed: %s" % (so + se)[-3000:])
    cres = json.load(open(cout))
    if cres["reached"] == 0:
        raise vlib.Inconclusive("no case reached a decoder")
    # one finding per (type, field, corruption, rule, class): a known-findings entry may name any subset of these fields
    groups = {}
    for v in cres.get("violations") or []:
        key = {"type": v["type"], "rule": v["rule"], "class": v["class"], "field": v["field"], "c": v["c"]}
        if v["class"] in ("roundtrip-fails", "roundtrip-differs"):
            what = "%s: the documented encoding of real material does not restore to an equal object: %s" % (v["type"], v["detail"])
        elif v["class"] == "silently-empty":
            what = "%s: restoring from %s yields no error and the empty object" % (v["type"], "a valid encoding of " + v["field"] if v["c"] == "othertype" else "corruption " + v["c"])
        elif v["class"] == "accepts-invalid":
            what = "%s: corruption %s of field %s is accepted, rule %s: %s" % (v["type"], v["c"], v["field"], v["rule"], v["detail"].split(" (field")[0].replace("no error, but ", ""))
        else:
            what = "%s: corruption %s of field %s: %s (%s)" % (v["type"], v["c"], v["field"], v["class"], v["detail"][:220])
        rep.violation(key, what, {"example": v, "replay": "decode input_hex with the documented decoder of the type (cbor.Unmarshal into the Empty* object / Message.UnmarshalBinary)"})
        groups.setdefault("%s | %s | %s" % (v["type"], v["rule"], v["class"]), []).append("%s:%s" % (v["field"], v["c"]))
    if groups:
        rep.cov["findings_by_type_rule_class"] = {k: sorted(x) for k, x in sorted(groups.items())}
    for s in (cres.get("samples") or [])[:4]:
        rep.sample(dict(s, part="corrupted encoding"))

    rep.add_counts(evaluations=cres["evaluations"] + cres["roundtrips"] + st["evaluations"])
    rep.cov.update({
        "distinct_nontrivial": cres["distinct_nontrivial"],
        "states": states, "transitions": trans,
        "codec_cases": len(cases), "codec_evaluations": cres["evaluations"], "codec_reached_decoder": cres["reached"],
        "codec_not_applicable": cres.get("not_applicable"), "codec_expected_vs_observed": cres.get("matrix"),
        "codec_lenient_accepts": len(cres.get("lenient") or {}), "codec_roundtrips": cres["roundtrips"],
        "codec_instances": cres.get("instances"),
        "histories_with_restore": st["evaluations"], "history_roundtrips": st.get("roundtrips", 0), "history_probes": st.get("probes", 0),
        "real_sessions": st.get("sessions", 0),
        "rule": "Codec.tla (TLC) enumerates type x field x corruption x (n,t) for the 8 result types with the expected class (reject / error + broken rules / valid) "
                "computed on an abstract object; codecdrv applies each case to the documented encoding of REAL material (FROST/Taproot/Doerner key generation, "
                "trusted-dealer CMP configs, a real CMP presignature, real signatures, real wire messages), calls the documented decoder and judges the result with "
                "independent predicates (zero scalar, identity / off-curve point, prime / modulus / Pedersen arithmetic over math/big, threshold vs table size, own entry, "
                "table agreement, sizes, empty object). A case is non-trivial and distinct when its bytes differ from the original encoding and reached the decoder, "
                "counted per (type, field, corruption, n, t). KeyLife.tla histories with a store/restore whose probe uses the restored object are executed by klife.",
    })
    for k in ("cmp_dealer_cache_differences_ignored", "probe_failures_not_due_to_restore"):
        if st.get(k):
            rep.cov[k] = st[k]
    rep.assumptions += [
        "the documented encoders are cbor.Marshal(object) / cbor.Unmarshal(bytes, Empty*(group)) (doc comments of the Empty* constructors) and Message.MarshalBinary / UnmarshalBinary",
        "validity rules: those named by the statement plus fixed sizes of byte-string components (chain key, RID, presignature id) and presence of the OT setup",
        "CMP configs come from a trusted dealer (as in the library's own tests) with the fixture safe primes; cmp.Config objects are compared by value (ids, scalars, primes, points, moduli, Pedersen parameters)",
        "statements that hold with overwhelming probability (random bytes are not a valid encoding, a random scalar is non-zero) are asserted on the real code only",
    ]
    rep.notes.append("codecdrv: build %.1fs run %.1fs" % (cres.get("build_s", 0), cres.get("run_s", 0)))
    # a structural disagreement between Codec.tla and the real encodings, or a problem of the driver, decides nothing - unless
    # the run also shows a violation nobody knew: then that is what gets reported
    if not rep.unknown():
        if cres.get("model_mismatch"):
            raise vlib.Inconclusive("Codec.tla does not describe the real encodings: %s" % cres["model_mismatch"][:6])
        if cres.get("harness_errors"):
            raise vlib.Inconclusive("codecdrv harness problems: %s" % cres["harness_errors"][:6])
    return rep.finish()
