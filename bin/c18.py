"""C18 - the worker pool always returns and never loses workers."""
import json, os
import vlib
from vlib import Raw

PROP = "C18"

CALLS = {
    "CallsPar2": [{"kind": "par", "k": 2}],
    "CallsPar3": [{"kind": "par", "k": 3}],
    "CallsPar0": [{"kind": "par", "k": 0}, {"kind": "par", "k": 1}],
    "CallsSearch1": [{"kind": "search", "k": 1}],
    "CallsSearch2": [{"kind": "search", "k": 2}],
    "CallsSearch0": [{"kind": "search", "k": 0}, {"kind": "search", "k": 1}],
    "CallsParPar": [{"kind": "par", "k": 2}, {"kind": "par", "k": 2}],
    "CallsMix": [{"kind": "par", "k": 2}, {"kind": "search", "k": 2}, {"kind": "par", "k": 3}],
    "CallsMix2": [{"kind": "search", "k": 2}, {"kind": "par", "k": 3}, {"kind": "search", "k": 1}],
    "CallsMix4": [{"kind": "search", "k": 3}, {"kind": "par", "k": 4}, {"kind": "search", "k": 2}, {"kind": "par", "k": 1}],
}


def consts(workers, calls, miss, fixed=True, emit=False):
    return {"W": set(workers), "Calls": "<- " + calls, "MaxMiss": miss, "Fixed": fixed, "EmitHist": emit}


def run(tier):
    rep = vlib.Report(PROP, "model_checking", tier)
    wd = vlib.workdir(PROP)
    vlib.build(["pooldrv"])
    drv = os.path.join(vlib.HBIN, "pooldrv")
    quick = tier == "quick"
    sd = vlib.seed()
    states = trans = 0
    replayed = 0

    # ---- 1. exhaustive model checking of the algorithm in the tree: safety + liveness
    exh = [(2, "CallsMix", 1), (3, "CallsPar3", 0), (2, "CallsSearch0", 1), (2, "CallsPar0", 0), (3, "CallsSearch2", 1)]
    if not quick:
        exh += [(3, "CallsMix", 1), (3, "CallsMix2", 1), (2, "CallsMix4", 2), (1, "CallsMix", 2), (4, "CallsPar3", 0)]
    for w, calls, miss in exh:
        ws = ["w%d" % i for i in range(1, w + 1)]
        c = vlib.cfg(consts(ws, calls, miss), spec="Spec", view="NoHist",
                     invariants=["TypeOK", "ResultsComplete", "NoLostWorker", "NotifierHasReceiver"],
                     properties=["Returns", "WorkersRecovered"])
        r = vlib.tlc(wd, "Pool", c, timeout=3000)
        vlib.tlc_must_pass(r, "Pool.tla W=%d %s" % (w, calls))
        states += r["distinct"]; trans += r["generated"]
        rep.notes.append("Pool.tla W=%d %s MaxMiss=%d: %d distinct states, safety + liveness (Returns, WorkersRecovered) hold" % (w, calls, miss, r["distinct"]))

    # ---- 2. behaviours for the gated replay: all paths for the small configurations, simulation beyond
    allpaths = [(2, "CallsPar2", 0), (2, "CallsSearch1", 0), (1, "CallsMix", 1), (2, "CallsPar0", 0)]
    if not quick:
        allpaths += [(3, "CallsPar2", 0), (2, "CallsSearch1", 1), (2, "CallsSearch2", 0)]
    sims = [(2, "CallsMix", 1, 300), (3, "CallsMix2", 1, 300), (3, "CallsPar3", 0, 200), (2, "CallsSearch2", 1, 200)]
    if not quick:
        sims = [(w, c, m, n * 10) for (w, c, m, n) in sims] + [(3, "CallsMix4", 2, 3000), (4, "CallsMix", 1, 2000)]
    jobs = []
    for w, calls, miss in allpaths:
        ws = ["w%d" % i for i in range(1, w + 1)]
        c = vlib.cfg(consts(ws, calls, miss, emit=True), spec="Spec",
                     invariants=["TypeOK", "ResultsComplete", "NoLostWorker", "Emit"])
        r = vlib.tlc(wd, "Pool", c, workers=1, timeout=3000)
        vlib.tlc_must_pass(r, "Pool.tla all paths W=%d %s" % (w, calls))
        states += r["distinct"]; trans += r["generated"]
        jobs.append((ws, calls, vlib.printed(r["out"], "HIST"), "all paths"))
    for w, calls, miss, num in sims:
        ws = ["w%d" % i for i in range(1, w + 1)]
        c = vlib.cfg(consts(ws, calls, miss, emit=True), spec="Spec", invariants=["TypeOK", "ResultsComplete", "Emit"])
        r = vlib.tlc(wd, "Pool", c, workers=1, timeout=3000, simulate="num=%d" % num, depth=400, seed_=sd + 1)
        if not r["ok"]:
            raise vlib.Inconclusive("Pool.tla simulation failed: %s" % r["out"][-2000:])
        jobs.append((ws, calls, vlib.printed(r["out"], "HIST"), "simulated"))
    for ws, calls, hists, how in jobs:
        if rep.violations:
            break
        if not hists:
            raise vlib.Inconclusive("no behaviours emitted for %s" % calls)
        # de-duplicate
        seen, uniq = set(), []
        for h in hists:
            k = json.dumps(h, sort_keys=True)
            if k not in seen:
                seen.add(k); uniq.append(h)
        hf = os.path.join(wd, "hist_%s_%d_%s.jsonl" % (calls, len(ws), how.replace(" ", "")))
        with open(hf, "w") as fh:
            for h in uniq:
                fh.write(json.dumps(h) + "\n")
        out = hf + ".out.json"
        p = vlib.run([drv, "-hist", hf, "-workers", ",".join(ws), "-calls", json.dumps(CALLS[calls]), "-out", out], timeout=3000)
        if p.returncode != 0:
            raise vlib.Inconclusive("pooldrv failed: %s" % (p.stdout + p.stderr)[-2000:])
        res = json.load(open(out))
        rep.add_counts(evaluations=res["evaluations"])
        fails = res["failures"] or []
        replayed += res["evaluations"] - len(fails)
        rep.notes.append("gated replay W=%d %s (%s): %d behaviours, %d steps, %d failed" % (len(ws), calls, how, res["evaluations"], res["steps"], len(fails)))
        if res["samples"]:
            rep.sample({"kind": "behaviour of Pool.tla replayed on the real pool (first steps)", "workers": ws, "calls": CALLS[calls], "steps": res["samples"][0]})
        for f in fails:
            if f["what"] == "harness":
                raise vlib.Inconclusive("pool replay harness problem: %s" % f["detail"])
            rep.violation({"what": f["what"]}, "real pool, behaviour of Pool.tla (%s, %d workers): %s - %s" % (calls, len(ws), f["what"], f["detail"]), f)

    # ---- 3. ungated stress: consecutive instantaneous calls on pools of 1..16 workers
    if rep.violations:
        return finish(rep, states, trans, replayed)   # already decided; every further failure only costs timeouts
    n = 300 if quick else 20000
    out = os.path.join(wd, "stress.json")
    p = vlib.run([drv, "-stress", str(n), "-seed", str(sd), "-out", out], timeout=3000)
    if p.returncode != 0:
        raise vlib.Inconclusive("pooldrv stress failed: %s" % (p.stdout + p.stderr)[-2000:])
    res = json.load(open(out))
    rep.add_counts(evaluations=res["evaluations"])
    for f in res["failures"] or []:
        rep.violation({"what": f["what"]}, "real pool under ungated stress (%s): %s" % (f["case"], f["detail"]), f)

    return finish(rep, states, trans, replayed)


def finish(rep, states, trans, replayed):
    rep.cov.update({"states": states, "transitions": trans, "traces_validated_against_impl": replayed,
                    "rule": "every behaviour TLC emits (all paths for the small configurations, simulated beyond) is replayed step by step on the real pool through the yield hooks; after every step the labels of the real goroutines must equal the model's, at the end calls must have returned exact results and all workers must take a task simultaneously"})
    rep.assumptions += ["goroutines are parked at the verif yield points; the Go scheduler is otherwise free",
                        "a goroutine that does not reach its next yield point within 2 s while it has been released is treated as blocked"]
    return rep.finish()
