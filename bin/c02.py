"""C02 - key generation yields one consistent, reconstructible sharing."""
import vlib, keylife as kl

PROP = "C02"


def run(tier):
    rep = vlib.Report(PROP, "model_checking", tier)
    wd = vlib.workdir(PROP)
    vlib.build(["klife"])
    quick = tier == "quick"
    sd = vlib.seed()
    states = trans = 0
    # GF(7) with n <= 4 does not finish in half an hour: the thorough tier takes GF(7) n <= 3 and GF(5) n <= 4
    r = kl.shamir_laws(wd, rep, 5 if quick else 7, 3)
    if not quick:
        r4 = kl.shamir_laws(wd, rep, 5, 4)
        vlib.tlc_must_pass(r4, "ShamirLaws.tla GF(5) n<=4")
        states_extra = r4["distinct"]
    else:
        states_extra = 0
    vlib.tlc_must_pass(r, "ShamirLaws.tla")
    states += r["distinct"] + states_extra; trans += r["generated"]
    rep.notes.append("ShamirLaws.tla GF(%d), n<=%d: %d configurations (id set x threshold x polynomial), all laws hold for every subset" % (5 if quick else 7, 3 if quick else 4, r["distinct"]))
    if not quick:
        for slack in (1, -1):
            rr = kl.shamir_laws(wd, rep, 5, 3, slack=slack)
            if not rr["violated"]:
                raise vlib.Inconclusive("negative control failed: dealing degree threshold%+d should violate a law" % slack)
            rep.notes.append("negative control: dealing polynomials of degree threshold%+d violates %s" % (slack, rr["violated"]))
    # configurations: keygen only, every reconstruction subset (and undersized ones)
    cfgs = [(2, 1), (3, 1), (3, 2), (4, 1), (4, 2), (4, 3), (1, 0), (2, 0), (3, 0)] if quick else \
           [(n, t) for n in range(1, 6) for t in range(0, n)]
    worlds = []
    for n, t in cfgs:
        if n > 4:
            # beyond the model's bound: keygen-only history with the full set, subsets are sampled inside klife
            hs = [{"ops": [], "probe": {"kind": "reconstruct", "S": list(range(1, t + 2)), "expect": "ok", "pick": [1] * (t + 1)}, "nver": 1}]
        else:
            allh, r = kl.histories(wd, n, t, maxops=0)
            states += r["distinct"]; trans += r["generated"]
            hs = [h for h in allh if h["ops"] == []]
        shapes = ["short", "long40", "utf8"] if quick else ["short", "long32", "long40", "utf8", "leadzero"]
        for k, shape in enumerate(shapes):
            for scheme in ("frost", "taproot"):
                if (n, t) in ((1, 0),) and scheme == "taproot":
                    continue
                worlds.append({"scheme": scheme, "n": n, "t": t, "ids": shape, "hists": kl.sample(hs, 40 if quick else 400, sd, "c02%s%d%d" % (scheme, n, t))})
    # Doerner (two-party additive)
    allh, r = kl.histories(wd, 2, 1, additive=True, maxops=0)
    states += r["distinct"]; trans += r["generated"]
    for shape in ("short", "utf8"):
        worlds.append({"scheme": "doerner", "n": 2, "t": 1, "ids": shape, "hists": [h for h in allh if h["ops"] == []]})
    # CMP: real key generation (seconds per party)
    for n, t in ([(2, 1), (3, 1)] if quick else [(2, 1), (3, 1), (3, 2), (4, 1), (4, 2), (4, 3)]):
        allh, r = kl.histories(wd, n, t, maxops=0)
        states += r["distinct"]; trans += r["generated"]
        hs = [h for h in allh if h["ops"] == [] and h["probe"]["kind"] == "reconstruct"]
        worlds.append({"scheme": "cmp", "n": n, "t": t, "ids": "short" if n % 2 else "long40", "hists": hs})
    results = kl.run_worlds(wd, worlds, sd)
    st = kl.report(rep, results, {"C02"})
    rep.add_counts(evaluations=st["evaluations"])
    rep.cov.update({"states": states, "transitions": trans, "traces_validated_against_impl": st["evaluations"],
                    "real_sessions": st.get("sessions", 0), "sharing_checks": st.get("sharing-checks", 0),
                    "rule": "for every (n, t) TLC enumerates the keygen-only histories of KeyLife.tla with every reconstruction subset; each world runs the REAL key generation (FROST, Taproot, Doerner, CMP) under a random schedule with several identifier shapes and checks with independent arithmetic: same group key / table / auxiliary keys everywhere, own share matches table, every t+1 subset of shares and of table entries gives the group key, t shares do not"})
    rep.assumptions += ["independent arithmetic: math/big secp256k1 and Lagrange interpolation of package oracle"]
    return rep.finish()
