"""Shared machinery for the property checks: building the harness from /repo's working tree, running TLC
in a scratch directory, collecting TLC-emitted cases, evidence files, known findings and verdicts."""
import json, os, re, shutil, subprocess, sys, time, hashlib

VERIF = os.path.dirname(os.path.dirname(os.path.abspath(__file__)))   # /verif, or a snapshot of it
SPEC = os.path.join(VERIF, "spec")
HARNESS = os.path.join(VERIF, "harness")
HBIN = os.path.join(HARNESS, "bin")
WORK = os.path.join(VERIF, "work")
EVID = os.path.join(VERIF, "evidence")
REPLAY = os.path.join(VERIF, "replay")

GOENV = dict(os.environ, GOFLAGS="-mod=mod", GOPROXY="off", GOSUMDB="off", GOTOOLCHAIN="local")


def seed():
    try:
        return int(os.environ.get("VERIF_SEED", "0"))
    except ValueError:
        return 0


def tier(argv_tier=None):
    t = argv_tier or os.environ.get("VERIF_TIER") or "quick"
    return "thorough" if t.startswith("th") else "quick"


class Inconclusive(Exception):
    pass


def workdir(prop):
    d = os.path.join(WORK, prop)
    shutil.rmtree(d, ignore_errors=True)
    os.makedirs(d, exist_ok=True)
    return d


# The library under test: /repo.  VERIF_REPO (used only by bin/seedeval.py, from a scratch copy of /verif) points the
# harness at a scratch checkout that carries a seeded change, so that /repo itself is never modified.
REPO = os.environ.get("VERIF_REPO", "/repo")


def build(cmds, race=False):
    """(Re)build the named harness commands from /repo's current working tree with the verif tag."""
    os.makedirs(HBIN, exist_ok=True)
    shutil.copy(os.path.join(REPO, "go.sum"), os.path.join(HARNESS, "go.sum"))
    if REPO != "/repo":
        gm = os.path.join(HARNESS, "go.mod")
        txt = open(gm).read()
        new = re.sub(r"(replace github.com/taurusgroup/multi-party-sig => )\S+", lambda m: m.group(1) + REPO, txt)
        if new != txt:
            open(gm, "w").write(new)
    for c in cmds:
        out = os.path.join(HBIN, c + ("-race" if race else ""))
        args = ["go", "build", "-tags", "verif"] + (["-race"] if race else []) + ["-o", out, "./cmd/" + c]
        p = subprocess.run(args, cwd=HARNESS, env=GOENV, capture_output=True, text=True)
        if p.returncode != 0:
            raise Inconclusive("harness build failed for %s:\n%s" % (c, p.stderr[-4000:]))
    return HBIN


def run(cmd, timeout=3600, cwd=None, env=None, check=False):
    p = subprocess.run(cmd, cwd=cwd, env=env or GOENV, capture_output=True, text=True, timeout=timeout)
    if check and p.returncode != 0:
        raise Inconclusive("command failed (%d): %s\n%s" % (p.returncode, " ".join(cmd), (p.stdout + p.stderr)[-4000:]))
    return p


_tlc_n = [0]
import threading
_tlc_lock = threading.Lock()


def tlc(wd, module, cfg_text, files=(), workers=None, timeout=1800, simulate=None, depth=None, seed_=None, extra=(),
        javaopts=None, dfid=None):
    """Run TLC on SPEC/module.tla with the given cfg text in a scratch directory. Returns a dict."""
    with _tlc_lock:
        _tlc_n[0] += 1
        d = os.path.join(wd, "tlc%d" % _tlc_n[0])
    os.makedirs(d, exist_ok=True)
    for f in os.listdir(SPEC):
        if f.endswith(".tla"):
            shutil.copy(os.path.join(SPEC, f), d)
    for f in files:
        shutil.copy(f, d)
    with open(os.path.join(d, "run.cfg"), "w") as fh:
        fh.write(cfg_text)
    if workers is None:
        workers = os.cpu_count() or 4
    cmd = ["timeout", str(timeout), "tlc", "-workers", str(workers), "-metadir", os.path.join(d, "md"), "-config", "run.cfg"]
    if simulate:
        cmd += ["-simulate", simulate]
    if depth:
        cmd += ["-depth", str(depth)]
    if seed_ is not None:
        cmd += ["-seed", str(seed_)]
    cmd += list(extra) + [module + ".tla"]
    env = dict(os.environ)
    if javaopts:
        env["JAVA_TOOL_OPTIONS"] = javaopts
    t0 = time.time()
    p = subprocess.run(cmd, cwd=d, capture_output=True, text=True, env=env)
    out = p.stdout + p.stderr
    with open(os.path.join(d, "tlc.out"), "w") as fh:
        fh.write(out)
    res = {"dir": d, "rc": p.returncode, "out": out, "wall": time.time() - t0, "cmd": " ".join(cmd)}
    m = re.search(r"(\d+) states generated, (\d+) distinct states found", out)
    res["generated"] = int(m.group(1)) if m else 0
    res["distinct"] = int(m.group(2)) if m else 0
    m = re.search(r"depth of the complete state graph search is (\d+)", out)
    res["depth"] = int(m.group(1)) if m else 0
    res["ok"] = "Model checking completed. No error has been found." in out or (simulate and p.returncode in (0, 124) and "Error:" not in out)
    m = re.search(r"Invariant (\w+) is violated", out) or re.search(r"The invariant of (\w+) is equal to FALSE", out)
    res["violated"] = m.group(1) if m else None
    if not m:
        m = re.search(r"Temporal properties were violated|Action property (\w+) is violated", out)
        if m:
            res["violated"] = m.group(1) or "temporal"
    m = re.search(r'TRACE-REJECTED at line", (\d+)', out)
    res["rejected_at"] = int(m.group(1)) if m else None
    if p.returncode == 124:
        res["timeout"] = True
    shutil.rmtree(os.path.join(d, "md"), ignore_errors=True)
    shutil.rmtree(os.path.join(d, "states"), ignore_errors=True)
    return res


def tlc_must_pass(r, what):
    """A model that TLC rejects (or cannot finish) is a problem of the model, never a verdict on the code."""
    if not r["ok"]:
        raise Inconclusive("TLC did not accept %s (violated=%s timeout=%s): see %s/tlc.out\n%s" % (
            what, r.get("violated"), r.get("timeout"), r["dir"], r["out"][-3000:]))


def printed(out, tag):
    """Values printed by the spec as <<"TAG", "json">> lines."""
    vals = []
    pre = '<<"%s", ' % tag
    for line in out.splitlines():
        line = line.strip()
        if line.startswith(pre) and line.endswith(">>"):
            body = line[len(pre):-2]
            try:
                vals.append(json.loads(json.loads(body)))
            except Exception:
                try:
                    vals.append(json.loads(body))
                except Exception:
                    pass
    return vals


def cfg(consts, spec=None, init=None, next_=None, invariants=(), properties=(), constraints=(), view=None,
        postcondition=None, deadlock=False, action_constraints=()):
    lines = ["CONSTANTS"]
    for k, v in consts.items():
        lines.append("  %s = %s" % (k, tla(v)) if not (isinstance(v, str) and v.startswith("<- ")) else "  %s %s" % (k, v))
    if spec:
        lines.append("SPECIFICATION " + spec)
    else:
        lines.append("INIT " + init)
        lines.append("NEXT " + next_)
    if invariants:
        lines.append("INVARIANTS " + " ".join(invariants))
    if properties:
        lines.append("PROPERTIES " + " ".join(properties))
    if constraints:
        lines.append("CONSTRAINTS " + " ".join(constraints))
    if action_constraints:
        lines.append("ACTION_CONSTRAINTS " + " ".join(action_constraints))
    if view:
        lines.append("VIEW " + view)
    if postcondition:
        lines.append("POSTCONDITION " + postcondition)
    lines.append("CHECK_DEADLOCK " + ("TRUE" if deadlock else "FALSE"))
    return "\n".join(lines) + "\n"


class Raw(str):
    pass


def tla(v):
    if isinstance(v, Raw):
        return str(v)
    if isinstance(v, bool):
        return "TRUE" if v else "FALSE"
    if isinstance(v, int):
        return str(v)
    if isinstance(v, str):
        return '"%s"' % v
    if isinstance(v, (set, frozenset)):
        return "{" + ", ".join(tla(x) for x in sorted(v, key=lambda x: (str(type(x)), x))) + "}"
    if isinstance(v, (list, tuple)):
        return "<<" + ", ".join(tla(x) for x in v) + ">>"
    raise ValueError(v)


# ----------------------------------------------------------------------------------------------
# verdicts, known findings, evidence

def load_known():
    path = os.path.join(VERIF, "known_findings.txt")
    known = []
    if os.path.exists(path):
        for line in open(path):
            line = line.strip()
            if line and not line.startswith("#") and not line.startswith("fixed:"):
                known.append(json.loads(line))
    return known


class Report:
    def __init__(self, prop, level, tier_):
        self.prop, self.level, self.tier = prop, level, tier_
        self.t0 = time.time()
        self.violations = []      # dicts with key, what, detail
        self.cov = {"samples": []}
        self.assumptions = []
        self.notes = []
        self.known_hit = []

    def add_counts(self, **kw):
        for k, v in kw.items():
            self.cov[k] = self.cov.get(k, 0) + v

    def sample(self, s, limit=6):
        if len(self.cov["samples"]) < limit:
            self.cov["samples"].append(s)

    def violation(self, key, what, detail=None):
        """key: dict of matching fields identifying the failing input / call site / history."""
        self.violations.append({"key": key, "what": what, "detail": detail})

    def unknown(self):
        """the violations recorded so far that no known-findings entry matches"""
        known = [k for k in load_known() if k.get("property") == self.prop and k.get("status") == "known"]
        return [v for v in self.violations if not any(all(v["key"].get(f) == val for f, val in k["key"].items()) for k in known)]

    def finish(self):
        known = [k for k in load_known() if k.get("property") == self.prop and k.get("status") == "known"]
        real = []
        printed_known = set()
        for v in self.violations:
            hit = None
            for k in known:
                if all(v["key"].get(f) == val for f, val in k["key"].items()):
                    hit = k
                    break
            if hit:
                tag = json.dumps(hit["key"], sort_keys=True)
                if tag not in printed_known:
                    printed_known.add(tag)
                    print("KNOWN-FINDING: property=%s %s" % (self.prop, hit["what"]))
                self.known_hit.append(hit["key"])
            else:
                real.append(v)
        os.makedirs(EVID, exist_ok=True)
        os.makedirs(REPLAY, exist_ok=True)
        rc = 0
        if real:
            rc = 1
            seen = set()
            for n, v in enumerate(real):
                tag = json.dumps(v["key"], sort_keys=True)
                if tag in seen:
                    continue
                seen.add(tag)
                h = hashlib.sha1(tag.encode()).hexdigest()[:10]
                path = os.path.join(REPLAY, "%s-%s.json" % (self.prop, h))
                with open(path, "w") as fh:
                    json.dump(v, fh, indent=1, default=str)
                print("VIOLATION property=%s replay=%s" % (self.prop, path))
                print("  what: %s" % v["what"])
                if len(seen) >= 20:
                    break
        ev = {"property_id": self.prop, "tier": self.tier, "seed": seed(), "level": self.level,
              "coverage": self.cov, "assumptions": self.assumptions, "wall_s": round(time.time() - self.t0, 2),
              "violations": len(real)}
        if self.known_hit:
            ev["coverage"]["known_findings_matched"] = len(self.known_hit)
        if self.notes:
            ev["coverage"]["notes"] = self.notes
        with open(os.path.join(EVID, self.prop + ".json"), "w") as fh:
            json.dump(ev, fh, indent=1, default=str)
        return rc


def main_wrap(fn):
    """Run a check function; map exceptions to exit 2 (inconclusive), never to a violation."""
    try:
        rc = fn()
    except Inconclusive as e:
        print("INCONCLUSIVE: %s" % e)
        sys.exit(2)
    except subprocess.TimeoutExpired as e:
        print("INCONCLUSIVE: timeout %s" % e)
        sys.exit(2)
    sys.exit(rc)
