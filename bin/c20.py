"""C20 - invalid session parameters are refused at start.

StartParams.tla enumerates, for each of the 17 start functions, the nominal parameter tuple and every tuple that differs
from it in one or two coordinates (values from a lattice around the boundaries), computes the expected outcome of each
and checks the predicate's consistency.  cmd/startdrv replays every case on the real start function through
NewMultiHandler / NewTwoPartyHandler and, where the real code accepts what it should not, runs the session with honest
peers in the simulator to record what that leads to."""
import json, os, time, collections
from concurrent.futures import ThreadPoolExecutor
import vlib

PROP = "C20"
MAXU = 1000000          # stand-in for MaxUint32 inside TLC (32-bit integers); the driver substitutes 2^32-1 / 2^32
INVARIANTS = ["TypeOK", "NominalAccepted", "Monotone", "Labelling", "UnsortedIsValid", "ClauseCovered", "Emit"]
NOT_REFUSED = ("panic", "accepted-invalid", "hang")


def tlc_cases(wd, only="all", variant="asstated", emit=True):
    inv = INVARIANTS if emit else INVARIANTS[:-1]
    c = vlib.cfg({"MAXU": MAXU, "Variant": variant, "Only": only}, spec="Spec", invariants=inv)
    return vlib.tlc(wd, "StartParams", c, workers=1, timeout=600)


def run_shard(drv, wd, casefile, f, sd, quick):
    """Run the driver on one start function; restart it after a case that hung or killed the process."""
    results, notes, frm, n_cases, sessions = [], [], 0, None, 0
    for attempt in range(40):
        out = os.path.join(wd, "res_%s_%d.json" % (f, attempt))
        prog = os.path.join(wd, "prog_%s" % f)
        cmd = [drv, "-cases", casefile, "-start", f, "-out", out, "-seed", str(sd), "-maxu", str(MAXU), "-from", str(frm),
               "-progress", prog, "-starttimeout", "15" if quick else "40", "-casetimeout", "200",
               "-runcap", "60" if quick else "400", "-cmpruncap", "1" if quick else "4",
               "-eitherpairs=%s" % ("false" if quick else "true"), "-schedules", "3" if quick else "6"]
        p = vlib.run(cmd, timeout=1500)
        part = None
        if os.path.exists(out):
            try:
                part = json.load(open(out))
            except Exception:
                part = None
        if p.returncode == 0:
            if not part or not part.get("done"):
                raise vlib.Inconclusive("startdrv %s: no complete result file" % f)
            results += part["results"]; sessions += part["sessions"]; n_cases = part["cases"]
            return results, notes, n_cases, sessions
        if p.returncode == 4 and part:        # a case hung (recorded in the partial result): resume after it
            results += part["results"]; sessions += part["sessions"]; n_cases = part["cases"]
            frm = part["next"]
            continue
        err = (p.stdout + p.stderr)[-3000:]
        if p.returncode == 3:
            raise vlib.Inconclusive("startdrv %s: watchdog: %s" % (f, err))
        if "fatal error:" in p.stderr or "runtime: out of memory" in p.stderr:
            # the Go runtime killed the process inside a case (recover() cannot catch this): attribute it to that case
            if part:
                results += part["results"]; sessions += part["sessions"]
            try:
                idx, cid = [int(x) for x in open(prog).read().split()]
            except Exception:
                raise vlib.Inconclusive("startdrv %s died without progress information: %s" % (f, err))
            results = [x for x in results if x["id"] != cid]
            results.append({"id": cid, "f": f, "param": None, "singles": None, "exp": None, "got": "fatal", "class": "panic",
                            "text": "the Go runtime aborted the process: " + p.stderr.strip().splitlines()[0][:200], "ms": 0, "fatal": True})
            notes.append("%s: driver killed by the runtime on case id %d" % (f, cid))
            frm = idx + 1
            continue
        raise vlib.Inconclusive("startdrv %s failed (rc %d): %s" % (f, p.returncode, err))
    raise vlib.Inconclusive("startdrv %s: too many restarts" % f)


def describe(r):
    w = "%s with %s" % (r["f"], r["param"])
    if r.get("role"):
        w += " (as %s)" % ("receiver" if r["role"] == "recv" else "sender")
    cl = r["class"]
    if cl == "panic":
        return w + ": handler construction panics instead of returning an error: " + (r.get("text") or "")
    if cl == "hang":
        return w + ": " + (r.get("text") or "handler construction never returns")
    if cl == "rejected-valid":
        return w + ": a valid parameter tuple is refused: " + (r.get("text") or "")
    run = r.get("run") or {}
    then = run.get("then") or ("session not run (%s)" % r.get("run_skipped", "-"))
    if cl == "accepted-invalid":
        return w + ": the invalid start is accepted (no error from handler construction); session with honest peers then: " + then
    return w + ": accepted, and the session then crashes or stalls: " + then


def run(tier):
    rep = vlib.Report(PROP, "exploration", tier)
    wd = vlib.workdir(PROP)
    quick = tier == "quick"
    sd = vlib.seed()
    drv = os.environ.get("C20_DRIVER")          # mutation experiments: a driver built against a modified copy of the library
    if not drv:
        vlib.build(["startdrv"])
        drv = os.path.join(vlib.HBIN, "startdrv")

    # ---- 1. the specification: consistency of the validity predicate, and the case list
    r = tlc_cases(wd)
    vlib.tlc_must_pass(r, "StartParams.tla (all start functions)")
    cases = vlib.printed(r["out"], "CASE")
    if len(cases) < 100 or 2 * len(cases) + 1 != r["distinct"]:
        raise vlib.Inconclusive("StartParams.tla printed %d cases for %d states" % (len(cases), r["distinct"]))
    states, trans = r["distinct"], r["generated"]
    cases.sort(key=lambda c: json.dumps(c, sort_keys=True))
    for i, c in enumerate(cases):
        c["id"] = i
    casefile = os.path.join(wd, "cases.jsonl")
    with open(casefile, "w") as fh:
        for c in cases:
            fh.write(json.dumps(c) + "\n")
    funcs = sorted({c["f"] for c in cases})
    if len(funcs) != 17:
        raise vlib.Inconclusive("expected 17 start functions, the specification has %d" % len(funcs))
    # negative controls: deliberately wrong predicates must be rejected by TLC (cheap: ~2 s each)
    for variant in (["nosubset"] if quick else ["nosubset", "nomsg", "thr_le_n"]):
        rn = tlc_cases(wd, only="frost.Sign" if quick else "all", variant=variant, emit=False)
        if rn["ok"] or not rn["violated"]:
            raise vlib.Inconclusive("negative control %s of StartParams.tla was not rejected by TLC" % variant)
        rep.notes.append("negative control Variant=%s rejected by TLC (invariant %s)" % (variant, rn["violated"]))

    # ---- 2. replay on the real start functions, one driver process per start function
    order = sorted(funcs, key=lambda f: (not f.startswith("cmp."), f))      # the slow ones first
    with ThreadPoolExecutor(max_workers=min(17, os.cpu_count() or 4)) as ex:
        futs = {f: ex.submit(run_shard, drv, wd, casefile, f, sd, quick) for f in order}
        shards = {f: futs[f].result() for f in order}
    results, sessions = [], 0
    byid = {c["id"]: c for c in cases}
    for f in funcs:
        res, notes, n_cases, ns = shards[f]
        rep.notes += notes
        sessions += ns
        want = {c["id"] for c in cases if c["f"] == f}
        got = {x["id"] for x in res}
        if want != got:
            raise vlib.Inconclusive("startdrv %s evaluated %d of %d cases" % (f, len(got & want), len(want)))
        for x in res:
            if x.get("fatal"):      # fill in the labels the dead process could not
                c = byid[x["id"]]
                x["exp"] = c["exp"]
                lab = lambda k: ("maxuint32" if c[k] == MAXU else "2^32" if c[k] == MAXU + 1 else str(c[k])) if k == "thr" else \
                    (",".join(c[k]) or "empty") if k == "ids" else str(c[k])
                x["param"] = "+".join("%s=%s" % (k, lab(k)) for k in c["ch"]) or "nominal"
                x["singles"] = []
                x["case"] = c
        results += res

    # ---- 3. verdicts.  A pair is attributed to the single change that already fails in the same way.
    single_fail = collections.defaultdict(set)
    for x in results:
        if x.get("class") and len(x.get("singles") or []) <= 1:
            single_fail[(x["f"], x["param"])].add(x["class"])
    subsumed = 0
    per_class = collections.Counter()
    for x in results:
        cl = x.get("class")
        if not cl:
            continue
        if len(x.get("singles") or []) == 2:
            hit = False
            for s in x["singles"]:
                sc = single_fail.get((x["f"], s), set())
                if cl in sc or (cl in NOT_REFUSED and sc & set(NOT_REFUSED)):
                    hit = True
            if hit:
                subsumed += 1
                continue
        per_class[cl] += 1
        rep.violation({"start": x["f"], "param": x["param"], "class": cl}, describe(x),
                      {"expected": x["exp"], "got": x["got"], "text": x.get("text"), "role": x.get("role"), "run": x.get("run"),
                       "case": x.get("case"), "replay": "%s -cases <file with this case> -v" % drv})

    # ---- 4. evidence
    n_eval = len(results)
    distinct = len({(x["f"], x.get("role") or "", x["id"]) for x in results
                    if x["got"] in ("error", "accept", "panic", "hang", "fatal") and byid[x["id"]]["ch"]})
    by_exp = collections.Counter(c["exp"] for c in cases)
    by_got = collections.Counter("%s->%s" % (x["exp"], x["got"]) for x in results)
    rep.add_counts(evaluations=n_eval, distinct_nontrivial=distinct)
    rep.cov.update({
        "states": states, "transitions": trans, "exhaustive": True,
        "start_functions": len(funcs), "cases": len(cases),
        "cases_single_change": sum(1 for c in cases if len(c["ch"]) == 1),
        "cases_pair_change": sum(1 for c in cases if len(c["ch"]) == 2),
        "cases_by_expected": dict(by_exp), "outcomes": dict(by_got), "sessions_run": sessions,
        "nonconforming_pairs_attributed_to_a_single_change": subsumed,
        "nonconforming_by_class": dict(per_class),
        "rule": "TLC enumerates, for each of the 17 start functions, the nominal parameter tuple and every tuple differing from it in "
                "one or two coordinates (threshold around 0,t,n-1,n,2^32-1,2^32; identifier lists duplicated/unsorted/empty/foreign/"
                "without self/too small; message nil/empty; key material nil or with one field removed; presignature nil or failing "
                "one validation clause or for a wrong signer set) with the expected outcome; each case is one call of the real start "
                "function through NewMultiHandler/NewTwoPartyHandler (doerner.Keygen in both roles). distinct_nontrivial counts the "
                "distinct (start function, role, tuple) evaluations with at least one non-nominal coordinate in which the library's start "
                "function was actually entered (returned, panicked or hung)",
    })
    picks = [x for x in results if x.get("class")][:2] + [x for x in results if x["got"] == "error"][:2] + \
            [x for x in results if x["got"] == "accept" and x.get("run")][:1] + [x for x in results if x["got"] == "accept"][:1]
    for x in picks:
        rep.sample({"start": x["f"], "param": x["param"], "tuple": {k: byid[x["id"]][k] for k in ("thr", "ids", "self", "msg", "key", "pre")},
                    "expected": x["exp"], "why": byid[x["id"]]["why"], "real_outcome": x["got"], "text": x.get("text"),
                    "session": (x.get("run") or {}).get("then")})
    rep.assumptions += [
        "universe: shareholders a,b,c with a degree-1 sharing, own identifier a, outsider z; secp256k1; the abstract value classes are "
        "mapped to concrete Go values by cmd/startdrv (e.g. 'nopaillier' = copy of a valid cmp.Config with Paillier = nil)",
        "valid CMP key material comes from a trusted dealer with fixture safe primes, valid presignatures from a dealer (R = k^-1 G, additive "
        "shares of k and x k); FROST and Doerner key material from real key generation sessions in the simulator",
        "expected outcome 'either' (no verdict on accept/refuse, but no panic and no crash/stall of peers): a key-material field the protocol "
        "never reads is missing; a session of a single party",
        "TLC integers are 32 bit: MaxUint32 is modelled by the constant MAXU and replaced by the real value in the driver",
        "in the simulated session after a wrongly accepted start, peers receive the same public parameters (identifier list, message, "
        "threshold) and their own valid private material; an outsider z participates with fabricated material",
        "quick tier: at most 1 CMP session is run per start function after a wrongly accepted start, sessions for accepted 'either' pairs are skipped",
    ]
    return rep.finish()
