"""C10 - ZK proofs are complete on their domain and bound to statement and context.

ZkCases.tla holds the transcribed structure of the 15 proof systems and an abstract verifier over it; TLC checks the
design facts (NoUnboundField, ...) and the property on the abstract verifier, and enumerates the case lattice
system x witness lattice point x perturbation with the expected verdict.  cmd/zkdrv replays every case on the real
packages (one process per system, deterministic randomness) and compares the real Verify with the expected verdict."""
import json, os, subprocess, time
import vlib

PROP = "C10"
INVS = ["NoUnboundField", "AllHashed", "RespInEq", "RelInEq", "WellFormed", "BindingSound", "CompleteOnDomain",
        "OutOfRangeRejected", "EmitStruct", "EmitCase"]
SYSTEMS = ["sch", "mod", "prm", "fac", "enc", "encelg", "affg", "affp", "logstar", "elog", "log", "nth", "dec", "mul", "mulstar"]
SLOW_FIRST = ["encelg", "affp", "affg", "mod", "prm"]      # start the long ones first


def run(tier):
    rep = vlib.Report(PROP, "exploration", tier)
    wd = vlib.workdir(PROP)
    vlib.build(["zkdrv"])
    drv = os.path.join(vlib.HBIN, "zkdrv")
    sd = vlib.seed()

    # ---- 1. TLC: design facts on the transcription, property on the abstract verifier, enumeration of the lattice
    c = vlib.cfg({"Tier": tier, "Variant": "asCoded", "OnlySys": ""}, spec="Spec", invariants=INVS)
    r = vlib.tlc(wd, "ZkCases", c, workers=1, timeout=600)
    vlib.tlc_must_pass(r, "ZkCases.tla tier=%s" % tier)
    states, trans = r["distinct"], r["generated"]
    rows = vlib.printed(r["out"], "CASE")
    structs = {s["sys"]: s for s in vlib.printed(r["out"], "STRUCT")}
    if not rows or set(structs) != set(SYSTEMS):
        raise vlib.Inconclusive("ZkCases.tla emitted %d cases / structures for %s" % (len(rows), sorted(structs)))
    rep.notes.append("ZkCases.tla tier=%s: %d distinct states, %d cases over %d systems; NoUnboundField, AllHashed, RespInEq, "
                     "RelInEq, WellFormed, BindingSound, CompleteOnDomain, OutOfRangeRejected hold" % (tier, states, len(rows), len(structs)))
    if True:
        # negative control (1-2 s): a structure with a forgotten public field must be rejected by TLC
        cc = vlib.cfg({"Tier": "quick", "Variant": "control", "OnlySys": "ctl"}, spec="Spec", invariants=["NoUnboundField", "BindingSound"])
        rc = vlib.tlc(wd, "ZkCases", cc, workers=1, timeout=300)
        if rc["ok"] or "NoUnboundField" not in rc["out"]:
            raise vlib.Inconclusive("negative control: TLC did not reject the structure with an unbound field")
        rep.notes.append("negative control (fictitious system with a public field outside challenge and equations): TLC rejects NoUnboundField")

    # ---- 2. one case file and one driver process per system
    rows.sort(key=lambda x: json.dumps(x, sort_keys=True))
    per = {s: [] for s in SYSTEMS}
    for i, row in enumerate(rows):
        row["id"] = i
        per[row["sys"]].append(row)
    procs = {}
    order = SLOW_FIRST + [s for s in SYSTEMS if s not in SLOW_FIRST]
    t0 = time.time()
    for s in order:
        inp = os.path.join(wd, "cases_%s.json" % s)
        with open(inp, "w") as fh:
            json.dump({"system": s, "struct": structs[s], "cases": per[s]}, fh)
        out = os.path.join(wd, "result_%s.json" % s)
        procs[s] = (subprocess.Popen([drv, "-in", inp, "-out", out, "-seed", str(sd)], env=vlib.GOENV,
                                     stdout=subprocess.PIPE, stderr=subprocess.STDOUT, text=True), out)
    limit = 80 if tier == "quick" else 840
    results = {}
    for s in order:
        p, out = procs[s]
        try:
            txt, _ = p.communicate(timeout=max(5, limit - (time.time() - t0)))
        except subprocess.TimeoutExpired:
            for q, _ in procs.values():
                q.kill()
            raise vlib.Inconclusive("zkdrv %s did not finish in time" % s)
        if p.returncode != 0 or not os.path.exists(out):
            for q, _ in procs.values():
                q.kill()
            raise vlib.Inconclusive("zkdrv %s failed (%s): %s" % (s, p.returncode, (txt or "")[-2000:]))
        results[s] = json.load(open(out))

    # ---- 3. verdicts
    inconclusive = []
    evals = reached = trivial = refused = proofs = 0
    for s in SYSTEMS:
        res = results[s]
        evals += res["evaluations"]; reached += res["reached"]; proofs += res["proofs_made"]
        trivial += len(res["trivial"] or []); refused += len(res["refused"] or [])
        inconclusive += res["inconclusive"] or []
        for f in res["failures"] or []:
            cs = f["case"]
            pert = cs["kind"]
            if cs["kind"] == "none":
                pts = sorted(set(w["point"] for w in cs["wit"]) & {"oorp", "oorm", "huge"})
                pert = ("witness-" + pts[0]) if pts else "none"
            field = cs["field"]
            if cs["kind"] == "none":
                field = ",".join("%s=%s" % (w["name"], w["point"]) for w in cs["wit"])
            key = {"system": s, "perturbation": pert, "field": field}
            if f["class"] == "panic":
                key["class"] = "panic"
            what = {"completeness": "%s: an honest proof for witness point [%s] does not verify",
                    "binding": "%s: a proof verifies although [%s] was altered",
                    "panic": "%s: Verify panics on [%s]",
                    "fs": "%s: Fiat-Shamir challenge does not bind [%s]"}[f["class"]] % (s, pert + " " + field)
            f["replay"] = {"how": "write driver_input to FILE, then: /verif/harness/bin/zkdrv -in FILE -out OUT.json -seed %d "
                                  "(lattice points: huge = 2^1800, oorp/oorm = +-2^(bound+1), pmax = 2^l, ...; see cmd/zkdrv/util.go)" % sd,
                           "driver_input": {"system": s, "struct": structs[s], "cases": [cs]}}
            rep.violation(key, what + " - " + f["detail"], f)
        for smp in (res["samples"] or [])[:1]:
            rep.sample({"system": s, **smp})
        rep.notes.append("%s: %d cases evaluated, %d proofs made, %d ms, verdicts %s, fs list %s" % (
            s, res["evaluations"], res["proofs_made"], res["wall_ms"], json.dumps(res["by_verdict"], sort_keys=True),
            "matches" if res["fs"].get("match") else "NOT CONFIRMED"))
    if inconclusive and not rep.violations:
        raise vlib.Inconclusive("structure table and Go types disagree / harness could not decide:\n  " + "\n  ".join(inconclusive[:10]))
    if evals + trivial + refused != len(rows) - len(inconclusive) and not rep.violations:
        raise vlib.Inconclusive("%d cases enumerated but %d accounted for" % (len(rows), evals + trivial + refused))
    rep.add_counts(evaluations=evals, distinct_nontrivial=reached)
    rep.cov.update({"states": states, "transitions": trans, "cases_enumerated_by_tlc": len(rows), "proofs_generated": proofs,
                    "noop_substitutions_skipped": trivial, "cheating_prover_refused": refused, "systems": len(SYSTEMS),
                    "fs_lists_confirmed": sum(1 for s in SYSTEMS if results[s]["fs"].get("match")),
                    "rule": "every case TLC enumerates from the transcribed structures (system x witness lattice point x perturbation: "
                            "public field <- other statement after / before proving, context, commitment / response <- other proof, "
                            "out-of-range response by out-of-range witness or set directly, challenge = hash of the transcribed list) "
                            "is instantiated on the real package with the fixed keys and Verify is compared with the expected verdict"})
    rep.assumptions += ["crypto/rand.Reader is replaced by a SHA-256 counter stream keyed by (VERIF_SEED, system, label)",
                        "expected 'reject' verdicts hold with overwhelming probability only; they are asserted on the real code, not in TLC",
                        "array-valued fields (mod.Responses, prm.As/Zs) are perturbed at indices 0 and 79",
                        "dec and mul have no range check by design (as in the paper): no out-of-range case expects 'reject' there; "
                        "a 2^1800 witness must only not make Verify panic"]
    return rep.finish()
