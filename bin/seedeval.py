#!/usr/bin/env python3
"""Confirms seeded breaking changes produced by independent sub-agents and runs the checks against them.
usage: seedeval.py <srcdir e.g. /tmp/mut/C06-1.out/A> <PROP> <name> [extra props...]
 - confirms in a scratch worktree that the patch applies, builds, and that the demonstration fails with it and passes without
 - runs bin/check <PROP> quick (and the extra props) from a scratch copy of the committed /verif against a scratch checkout
   of /repo that carries the patch (VERIF_REPO); /repo itself is not touched
 - stores patch, demonstration and meta.json under /verif/seeded/<name>/"""
import json, os, re, shutil, subprocess, sys, time
ENV = dict(os.environ, GOFLAGS="-mod=mod", GOPROXY="off", GOSUMDB="off", GOTOOLCHAIN="local")

def sh(cmd, cwd=None, timeout=3000):
    p = subprocess.run(cmd, cwd=cwd, env=ENV, capture_output=True, text=True, timeout=timeout, shell=isinstance(cmd, str))
    return p.returncode, (p.stdout + p.stderr)

def main():
    src, prop, name = sys.argv[1], sys.argv[2], sys.argv[3]
    extra = sys.argv[4:]
    dst = os.path.join("/verif/seeded", name)
    os.makedirs(dst, exist_ok=True)
    patch = os.path.join(src, "patch.diff")
    demos = [f for f in os.listdir(src) if f.endswith(".go")]
    meta = {"name": name, "property": prop, "source": "independent sub-agent given only the property text and a scratch worktree", "ran": []}
    same = os.path.realpath(src) == os.path.realpath(dst)   # re-evaluation of a stored change
    if not same:
        shutil.copy(patch, os.path.join(dst, "patch.diff"))
        if os.path.exists(os.path.join(src, "notes.md")):
            shutil.copy(os.path.join(src, "notes.md"), os.path.join(dst, "notes.md"))
    wt = "/tmp/seedwt_" + name
    sh(["git", "-C", "/repo", "worktree", "remove", "--force", wt])
    rc, out = sh(["git", "-C", "/repo", "worktree", "add", "-q", "--detach", wt, "HEAD"])
    if rc:
        print("worktree failed", out); sys.exit(2)
    try:
        rc, out = sh(["git", "apply", patch], cwd=wt)
        meta["applies"] = rc == 0
        if rc:
            meta["apply_error"] = out[-500:]
            print("PATCH DOES NOT APPLY", out[-300:])
            return meta
        skip = bool(os.environ.get("SEEDEVAL_SKIP_DEMO")) and same and os.path.exists(os.path.join(dst, "meta.json"))
        if skip:
            # re-evaluation of a change that was confirmed before: keep the confirmation record, only run the checks
            old = json.load(open(os.path.join(dst, "meta.json")))
            for k in ("builds", "demo", "confirmed"):
                if k in old:
                    meta[k] = old[k]
            demos = []
            rc = 0
        else:
            rc, out = sh("go build ./... && go build -tags verif ./...", cwd=wt)
            meta["builds"] = rc == 0
        if rc:
            meta["build_error"] = out[-800:]
        demo_ok = None
        if demos and meta["builds"]:
            demo = demos[0]
            if not same:
                shutil.copy(os.path.join(src, demo), os.path.join(dst, demo))
            txt = open(os.path.join(src, demo)).read()
            head = "\n".join(txt.splitlines()[:8])
            m = re.search(r"((?:protocols|pkg|internal)(?:/[\w\.\-]+)*)", head)
            ddir = m.group(1).rstrip("/.") if m else None
            if ddir and ddir.endswith(".go"):
                ddir = os.path.dirname(ddir)
            tests = re.findall(r"^func (Test\w+)\(", txt, re.M)
            meta["demo"] = {"file": demo, "dir": ddir, "tests": tests}
            if ddir and tests:
                target = os.path.join(wt, ddir, "zz_seed_demo_test.go")
                shutil.copy(os.path.join(src, demo), target)
                run = ["go", "test", "-count=1", "-vet=off", "-timeout", "20m", "-run", "^(" + "|".join(tests) + ")$", "./" + ddir + "/"]
                rc1, out1 = sh(run, cwd=wt)
                sh(["git", "apply", "-R", patch], cwd=wt)
                rc2, out2 = sh(run, cwd=wt)
                meta["demo"].update({"fails_with_change": rc1 != 0, "passes_without": rc2 == 0,
                                     "with_tail": out1[-400:], "without_tail": out2[-200:]})
                meta["ran"].append("demo: " + " ".join(run))
                demo_ok = rc1 != 0 and rc2 == 0
        if not skip:
            meta["confirmed"] = bool(meta["builds"] and demo_ok)
        # the checks against the change: a scratch copy of the committed /verif whose harness is pointed (VERIF_REPO) at
        # the scratch checkout carrying the change - /repo itself is not touched
        sh(["git", "checkout", "--", "."], cwd=wt)
        sh(["git", "clean", "-fdq"], cwd=wt)
        rc, out = sh(["git", "apply", patch], cwd=wt)
        vf = "/tmp/seedvf_" + name
        sh(["git", "-C", "/verif", "worktree", "remove", "--force", vf])
        rc, out = sh(["git", "-C", "/verif", "worktree", "add", "-q", "--detach", vf, "HEAD"])
        if rc:
            print("verif worktree failed", out); sys.exit(2)
        det = {}
        try:
            env = dict(ENV, VERIF_REPO=wt)
            for p in [prop] + extra:
                t0 = time.time()
                pr = subprocess.run(["bin/check", p, "quick"], cwd=vf, env=env, capture_output=True, text=True, timeout=3000)
                rc, out = pr.returncode, pr.stdout + pr.stderr
                whats = [l.strip()[6:] for l in out.splitlines() if l.strip().startswith("what:")]
                det[p] = {"rc": rc, "violations": out.count("VIOLATION property="), "first": whats[:2], "wall_s": round(time.time() - t0)}
                if rc not in (0, 1):
                    det[p]["tail"] = out[-600:]
                meta["ran"].append("bin/check %s quick (scratch copy of /verif, harness built against a scratch checkout with the patch applied)" % p)
        finally:
            sh(["git", "-C", "/verif", "worktree", "remove", "--force", vf])
            shutil.rmtree(vf, ignore_errors=True)
    finally:
        sh(["git", "-C", "/repo", "worktree", "remove", "--force", wt])
        shutil.rmtree(wt, ignore_errors=True)
    meta["detection"] = det
    meta["detected_by"] = [p for p, d in det.items() if d["rc"] == 1]
    return meta

if __name__ == "__main__":
    m = main()
    json.dump(m, open(os.path.join("/verif/seeded", sys.argv[3], "meta.json"), "w"), indent=1)
    print(json.dumps({k: m.get(k) for k in ("name", "applies", "builds", "confirmed", "detected_by")}))
    for p, d in (m.get("detection") or {}).items():
        print("  ", p, d["rc"], d["violations"], (d["first"] or [""])[0][:200])
