"""C07 - outcome is independent of delivery order, duplication and early arrival."""
import json, os, re
import vlib, handler_common as hc
from vlib import Raw

PROP = "C07"


def last_l(out):
    ls = re.findall(r"/\\ l = (\d+)", out)
    return int(ls[-1]) if ls else None


def run(tier):
    rep = vlib.Report(PROP, "model_checking", tier)
    wd = vlib.workdir(PROP)
    vlib.build(["hsim"])
    hsim = os.path.join(vlib.HBIN, "hsim")
    sd = vlib.seed()
    quick = tier == "quick"
    states = trans = 0

    # ---- 1. global model: every interleaving of deliveries among 3 honest parties (+1 duplicate), liveness
    glob = [("b,bm", 1, 0), ("m", 1, 1), ("b,b", 1, 0)] if quick else \
           [("b,bm", 1, 0), ("m", 2, 1), ("b,b", 1, 1), ("bm,bm", 1, 0), ("b,m", 1, 1), ("m,b", 1, 1)]
    for shape, dup, frn in glob:
        R, sb, sm = hc.SHAPES[shape]
        consts = hc.handler_consts(["a", "b", "c"], ["a", "b", "c"], R, sb, sm, dup=dup, foreign=frn)
        c = vlib.cfg(consts, spec="Spec", invariants=["TypeOK", "HonestNeverAborts", "NoDeadlock"],
                     properties=["Completes", "Isolation", "ResultStable"])
        r = vlib.tlc(wd, "Handler", c, timeout=3000)
        vlib.tlc_must_pass(r, "Handler.tla all-honest shape %s" % shape)
        states += r["distinct"]; trans += r["generated"]
        rep.notes.append("Handler.tla all-honest shape=%s dup=%d foreign=%d: %d distinct states, depth %d, invariants+liveness hold" % (shape, dup, frn, r["distinct"], r["depth"]))

    # ---- 2. per-party model: EVERY causal delivery order, replayed on the real handler
    #        (toy protocol of that shape and the real protocol that has it)
    local = [("m", 3, ["xor", "toy:m"], 1, 1), ("m", 4, ["xor", "toy:m"], 1, 1),
             ("b,bm", 3, ["frost-keygen", "taproot-keygen", "toy:b,bm"], 0, 0),
             ("b,b", 3, ["frost-sign", "taproot-sign", "toy:b,b"], 1, 0),
             ("b,bm", 3, ["toy:b,bm", "frost-keygen"], 1, 0) if not quick else None,
             ("bm,bm", 3, ["toy:bm,bm"], 0, 0) if not quick else None,
             ("b,b", 3, ["toy:b,b", "frost-sign"], 1, 1) if not quick else None]
    names = ["a", "b", "c", "d"]
    traces_ok = 0
    for item in local:
        if item is None:
            continue
        shape, n, protos, dup, frn = item
        R, sb, sm = hc.SHAPES[shape]
        consts = hc.handler_consts(names[:n], ["a"], R, sb, sm, dup=dup, foreign=frn)
        consts["F"] = "a"
        consts["Emit"] = True
        consts.update({"BadFrom": "none", "BadRd": 0, "BadB": False})
        c = vlib.cfg(consts, spec="LSpec", invariants=["LNeverAborts", "LDoneWhenAll", "LNoEarlyDone", "EmitHist"],
                     properties=["LProgress"])
        r = vlib.tlc(wd, "HandlerLocal", c, workers=1, timeout=3000)
        vlib.tlc_must_pass(r, "HandlerLocal.tla shape %s n=%d" % (shape, n))
        states += r["distinct"]; trans += r["generated"]
        hists = vlib.printed(r["out"], "HIST")
        if not hists:
            raise vlib.Inconclusive("HandlerLocal emitted no histories for %s" % shape)
        hf = os.path.join(wd, "hist_%s_%d_%d_%d.jsonl" % (shape.replace(",", "_"), n, dup, frn))
        with open(hf, "w") as fh:
            for h in hists:
                fh.write(json.dumps(h) + "\n")
        rep.notes.append("HandlerLocal.tla shape=%s n=%d dup=%d foreign=%d: %d states, %d complete delivery histories" % (shape, n, dup, frn, r["distinct"], len(hists)))
        for proto in protos:
            out = os.path.join(wd, "orders_%s_%d.json" % (proto.replace(":", "_").replace(",", "_"), n))
            p = vlib.run([hsim, "orders", "-proto", proto, "-n", str(n), "-hist", hf, "-out", out, "-seed", str(sd)], timeout=3000)
            if p.returncode != 0:
                raise vlib.Inconclusive("hsim orders failed: %s" % (p.stdout + p.stderr)[-2000:])
            res = json.load(open(out))
            rep.add_counts(evaluations=res["evaluations"])
            traces_ok += res["evaluations"] - len(res["failures"] or [])
            for s in res["samples"][:1]:
                rep.sample({"kind": "delivery order replayed on " + proto, "history": s})
            for f in res["failures"] or []:
                rep.violation({"proto": proto, "what": f["what"]},
                              "%s: replaying a TLC-enumerated delivery order on the real handler: %s" % (proto, f["what"]), f)

    # ---- 2b. the two-party handler (Doerner): every interleaving incl. duplicates and late re-deliveries, liveness
    for R in (2, 3):
        consts = {"P": {"a", "b"}, "Honest": {"a", "b"}, "R": R, "First": "a", "Variants": {"h"}, "MaxInject": 0,
                  "MaxDup": 2 if quick else 3, "StopAllowed": False}
        r = vlib.tlc(wd, "TwoParty", vlib.cfg(consts, spec="Spec", invariants=["TypeOK", "HonestNeverAborts", "NoDeadlock", "NoBadAccepted"],
                                             properties=["Completes", "ResultStable"]), timeout=1500)
        vlib.tlc_must_pass(r, "TwoParty.tla R=%d" % R)
        states += r["distinct"]; trans += r["generated"]
        rep.notes.append("TwoParty.tla both honest, R=%d, duplicates / late re-deliveries: %d distinct states, invariants + liveness hold" % (R, r["distinct"]))

    # ---- 3. random global schedules of real protocols (duplicates included), validated against Handler.tla
    runs = 25 if quick else 150
    tv = [("frost-keygen", 3), ("frost-sign", 3), ("taproot-keygen", 3), ("taproot-sign", 3), ("xor", 4), ("toy:bm,bm", 3),
          ("frost-keygen", 4), ("toy:b,b,bm,b", 3), ("doerner-keygen", 2)]
    if not quick:
        tv += [("cmp-keygen", 3), ("frost-sign", 5), ("toy:bm,bm,bm,b", 4), ("xor", 5)]
    for proto, n in tv:
        tag = "%s_%d" % (proto.replace(":", "_").replace(",", "_"), n)
        tf = os.path.join(wd, "trace_%s.ndjson" % tag)
        sf = os.path.join(wd, "trace_%s.json" % tag)
        k = runs if not proto.startswith("cmp") else 6
        p = vlib.run([hsim, "traces", "-proto", proto, "-n", str(n), "-runs", str(k), "-seed", str(sd), "-out", tf, "-summary", sf], timeout=3000)
        if p.returncode != 0:
            raise vlib.Inconclusive("hsim traces failed: %s" % (p.stdout + p.stderr)[-2000:])
        s = json.load(open(sf))
        for f in s["failures"] or []:
            rep.violation({"proto": proto, "what": f["what"]}, "%s under a random schedule: %s (%s)" % (proto, f["what"], f["detail"]), f)
        if proto.startswith("doerner"):
            r = hc.validate_twoparty(wd, tf, s["parties"], s["parties"], s["R"], extra_invariants=["TraceHonestNeverAborts"])
        else:
            r = hc.validate_trace(wd, tf, s["parties"], s["parties"], s["R"], s["shapeB"] or [], s["shapeM"] or [],
                                  extra_invariants=["TraceHonestNeverAborts"])
        states += r["distinct"]; trans += r["generated"]
        if r["ok"]:
            traces_ok += k
            rep.add_counts(evaluations=k)
        elif r.get("timeout"):
            raise vlib.Inconclusive("trace validation timed out for %s" % proto)
        else:
            line = r["rejected_at"] or last_l(r["out"])
            ev = hc.trace_line(tf, line) if line else None
            rep.violation({"proto": proto, "what": "trace-" + (r["violated"] or "rejected")},
                          "%s: a recorded real execution is not a behaviour of Handler.tla (%s at trace line %s)" % (proto, r["violated"] or "no action matches", line),
                          {"event": ev, "trace_file": tf, "tlc": r["dir"]})
        if s.get("sample"):
            rep.sample({"kind": "recorded trace events of " + proto, "events": s["sample"][:3]})

    # ---- 4. foreign-session messages injected at random points never change the outcome (multi- and two-party handlers)
    vlib.build(["hadv"])
    fscen = []
    for k in range(3 if quick else 12):
        for proto, n, t in (("frost-keygen", 3, 1), ("doerner-keygen", 2, 1), ("doerner-sign", 2, 1), ("toy:b,bm,b", 3, 1)):
            fscen.append({"id": len(fscen), "kind": "foreign", "proto": proto, "n": n, "t": t, "byz": "", "diff": "sid", "sched": sd * 89 + k * 11 + len(fscen)})
    outcomes, problems, fstats = hc.run_adversarial(wd, fscen, "frn", sd, shards=8)
    states += fstats["distinct"]; trans += fstats["generated"]
    traces_ok += fstats["traces"]
    rep.add_counts(evaluations=len(fscen))
    for i, o in outcomes.items():
        for v in o.get("viol") or []:
            s = fscen[i]
            rep.violation({"proto": s["proto"], "what": v["what"]}, "%s with foreign-session messages injected: %s" % (s["proto"], v["detail"]), {"scenario": s, "violation": v})
    for pr in problems:
        g = pr["group"]
        rep.violation({"proto": g["proto"], "what": "trace-" + (pr["violated"] or "rejected")},
                      "%s: a recorded real execution with foreign-session messages is not a behaviour of the handler specification: %s at trace line %s" % (g["proto"], pr["violated"] or "no action matches", pr["line"]),
                      {"event": pr["event"], "scenario": pr["scenario"], "trace_file": g["file"]})

    rep.cov.update({"states": states, "transitions": trans, "traces_validated_against_impl": traces_ok,
                    "exhaustive": True,
                    "rule": "orders: every complete causal delivery history TLC enumerates for one handler (incl. duplicate / stale / foreign insertions) is replayed on the real handler; traces: random global schedules of real sessions validated line by line against Handler.tla"})
    rep.assumptions += ["per-party randomness is fixed by replacing crypto/rand.Reader with a deterministic stream",
                        "payload bytes are abstracted to variants; equality of results is judged on a deep structural rendering of the real result values"]
    return rep.finish()
