#!/usr/bin/env python3
"""Regenerates /verif/MANIFEST.json from the table below (single source of truth for what is claimed)."""
import json, os, subprocess
V = "/verif"
props = [json.loads(l)["id"] for l in open(os.path.join(V, "properties.jsonl"))]

def repo_hook_commits():
    out = subprocess.run(["git", "-C", "/repo", "log", "--format=%H %s"], capture_output=True, text=True).stdout
    return [l.split()[0] for l in out.splitlines() if "verif hook" in l]

CHECKS = {}
def claim(pid, level, text, note, technique, design_ref, engine="tlc+go-harness"):
    CHECKS[pid] = {
        "property_id": pid,
        "quick_cmd": "bin/check %s quick" % pid,
        "thorough_cmd": "bin/check %s thorough" % pid,
        "evidence_file": "/verif/evidence/%s.json" % pid,
        "replay_cmd_template": "cat {path}",
        "engine": engine,
        "level_claimed": {"category": level, "text": text, "design_ref": design_ref},
        "level_note": note,
        "technique": technique,
    }

exec(open(os.path.join(V, "bin", "claims.py")).read())

NA = {}
for p in props:
    if p not in CHECKS:
        NA[p] = NOT_YET.get(p, "check not built yet (work in progress; DESIGN.md has the plan)")

m = {
 "version": 1,
 "setup_cmd": "bash /verif/bin/setup.sh",
 "hooks": {"guard": "verif",
           "enable": "go build -tags verif in /verif/harness (module github.com/taurusgroup/multi-party-sig/verifharness, replace => /repo)",
           "baseline_off_cmd": "cd /repo && GOFLAGS=-mod=mod go test -vet=off -count=1 -timeout 25m ./...",
           "source_commits": repo_hook_commits(), "add_only": True},
 "engines": [
  {"name": "tlc+go-harness", "path": "/verif/bin/check", "serves_properties": sorted(CHECKS),
   "kind_free_text": "explicit TLA+ specifications (/verif/spec) checked with TLC; behaviours/cases emitted by TLC are replayed on the real code and traces recorded from the real code are validated against the specification by TLC (harness: /verif/harness, orchestrator: /verif/bin)"}],
 "checks": [CHECKS[p] for p in sorted(CHECKS)],
 "notes": "Every claimed property is decided with an explicit TLA+ specification + TLC, bound to the implementation by replay and/or trace validation; see DESIGN.md.",
 "not_applicable": [{"property_id": p, "reason": NA[p]} for p in sorted(NA)],
}
json.dump(m, open(os.path.join(V, "MANIFEST.json"), "w"), indent=1)
print("claimed:", sorted(CHECKS), "not claimed:", sorted(NA))
