"""Adversarial handler checks shared by C03, C04, C05, C06: catalogue from FaultCat.tla (TLC), execution on real
protocols (hadv), trace validation against Handler.tla (TLC), property-level predicates from the harness."""
import re
import json, os, random
import vlib, handler_common as hc

STRUCTURAL = {"null", "absent", "huge", "trunc", "extend", "empty", "emptymap", "emptyarr", "duplast", "droplast", "emptytext", "max"}


def _field_name(cat, c):
    """Path of the altered leaf with list positions removed: /Mod/Responses/17/Z -> /Mod/Responses/#/Z."""
    for s in cat["slots"]:
        if s["round"] == c["round"] and bool(s["b"]) == bool(c["b"]) and c["leaf"] < len(s["leaves"]):
            return re.sub(r"/\d+(?=/|$)", "/#", s["leaves"][c["leaf"]]["Path"])
    return "?"


def _leaf_len(cat, c):
    for s in cat["slots"]:
        if s["round"] == c["round"] and bool(s["b"]) == bool(c["b"]) and c["leaf"] < len(s["leaves"]):
            return s["leaves"][c["leaf"]].get("Len", 0)
    return 0


def build_scenarios(wd, proto, n, t, kinds, seed, limit=None, scheds=1, cross=False, alts=None, start_id=0, pool=False, fieldwise=False, minlen=0, only_byz=None):
    cat = hc.fault_catalogue(wd, proto, n, t, seed)
    cases = []
    if "equiv" in kinds:
        cases += [c for c in cat["equiv"] if only_byz is None or c["byz"] == only_byz]
    if "fault" in kinds:
        # the count-overflow family (lenwrap<k>, lenmax, lenhalf) only on request (alts contains "len*")
        lenfam = alts is not None and "len*" in alts
        fl = [c for c in cat["fault"] if (c["alt"].startswith("len") and lenfam) or
              (not c["alt"].startswith("len") and (alts is None or c["alt"] in alts))]
        if minlen:
            fl = [c for c in fl if _leaf_len(cat, c) >= minlen]    # the big numbers (moduli-sized values) only
        if fieldwise:
            # one case per (message slot, field name, alteration): the first list position, a cheater and recipient
            # that rotate with the seed
            groups = {}
            for c in sorted(fl, key=lambda c: json.dumps(c, sort_keys=True)):
                # (in the two-party protocols the two roles send different messages: one case per role)
                groups.setdefault((c["round"], c["b"], _field_name(cat, c), c["alt"], c["byz"] if n == 2 else ""), []).append(c)
            fl = []
            for k in sorted(groups, key=str):
                g = groups[k]
                first = min(x["leaf"] for x in g)
                g = [x for x in g if x["leaf"] == first]
                fl.append(g[seed % len(g)])
        cases += fl
    if "hdr" in kinds:
        cases += cat["hdr"]
    cases.sort(key=lambda c: json.dumps(c, sort_keys=True))
    total = len(cases)
    if limit is not None and len(cases) > limit:
        # the (few) equivocation scenarios are never sampled out
        keep = [c for c in cases if c["kind"] == "equiv"]
        rest = [c for c in cases if c["kind"] != "equiv"]
        rnd = random.Random("%d/%s/%d" % (seed, proto, n))
        cases = keep + rnd.sample(rest, max(0, min(len(rest), limit - len(keep))))
    scen = []
    i = start_id
    for c in cases:
        for k in range(scheds):
            s = {"id": i, "proto": proto, "n": n, "t": t, "sched": seed * 131 + k * 17 + i % 1000}
            s.update(c)
            s.pop("react", None)
            if c["kind"] == "equiv" and cross and k % 2 == 1:
                s["cross"] = True
            if c["kind"] == "equiv" and cross and k % 4 == 2:
                s["both"] = True   # group B gets the B version addressed to it, then the A version as an ordinary broadcast
            if pool:
                s["pool"] = True
            scen.append(s)
            i += 1
    return scen, total, cat


def _abort_site(detail):
    if "round 7: failed to validate Delta MtA Nth proof" in detail:
        return "presign/abort1.StoreBroadcastMessage"
    if "round 8: failed to validate Delta MtA Nth proof" in detail:
        return "presign/abort2.StoreBroadcastMessage"
    return "other"


def run_family(rep, wd, plan, prop, seed, count_props, shards=8, extra_scen=()):
    """plan: list of dicts(proto,n,t,kinds,limit,scheds,alts,cross). Runs everything, reports violations whose
    property is in count_props plus every trace problem. Returns aggregated stats."""
    scen = []
    states = trans = 0
    cat_total = 0
    for p in plan:
        sc, total, cat = build_scenarios(wd, p["proto"], p["n"], p["t"], p["kinds"], seed, p.get("limit"), p.get("scheds", 1),
                                         p.get("cross", False), p.get("alts"), start_id=len(scen), pool=p.get("pool", False),
                                         fieldwise=p.get("fieldwise", False), minlen=p.get("minlen", 0), only_byz=p.get("only_byz"))
        scen += sc
        cat_total += total
        states += cat["tlc"]["distinct"]; trans += cat["tlc"]["generated"]
        rep.notes.append("FaultCat.tla %s n=%d: %d catalogue cases for %s, %d scenarios run" % (p["proto"], p["n"], total, "+".join(p["kinds"]), len(sc)))
    for x in extra_scen:
        x = dict(x)
        x["id"] = len(scen)
        scen.append(x)
    # (a thorough run is a few thousand real sessions, CMP among them: the budget follows the amount of work)
    outcomes, problems, stats = hc.run_adversarial(wd, scen, "adv", seed, shards=shards, timeout=3000 if len(scen) < 6000 else 9000)
    states += stats["distinct"]; trans += stats["generated"]
    by_id = {s["id"]: s for s in scen}
    applicable = reached = 0
    distinct = set()
    others = {}
    for i, o in outcomes.items():
        s = by_id[i]
        if not o["applicable"]:
            continue
        applicable += 1
        if o.get("reached"):
            reached += 1
            distinct.add(json.dumps({k: s.get(k) for k in ("proto", "n", "kind", "byz", "round", "b", "leaf", "alt", "hdr", "to", "groups")}, sort_keys=True))
        for v in o.get("viol") or []:
            if v["prop"] in count_props:
                key = {"proto": s["proto"], "what": v["what"]}
                if v.get("site"):
                    key = {"what": v["what"], "site": v["site"]}
                if s["kind"] == "presigncheat":
                    key = {"what": v["what"], "site": _abort_site(v["detail"])}
                rep.violation(key, "%s, scenario %s: %s" % (s["proto"], json.dumps({k: s[k] for k in s if k not in ("id", "sched")}, sort_keys=True), v["detail"]),
                              {"scenario": s, "violation": v, "status": o["status"]})
            else:
                others[v["prop"] + ":" + v["what"]] = others.get(v["prop"] + ":" + v["what"], 0) + 1
    for pr in problems:
        g = pr["group"]
        rep.violation({"proto": g["proto"], "what": "trace-" + (pr["violated"] or "rejected")},
                      "%s (cheater %s): a recorded real execution is not a behaviour of Handler.tla: %s at trace line %s" % (
                          g["proto"], g["byz"] or "-", pr["violated"] or "no action of the specification matches the observed step", pr["line"]),
                      {"event": pr["event"], "scenario": pr["scenario"], "trace_file": g["file"], "tlc": pr["tlc"]})
    if others:
        rep.notes.append("observations belonging to other properties (reported by their own checks): %s" % others)
    for s in scen[:3]:
        rep.sample({"scenario": s, "outcome": outcomes.get(s["id"])})
    rep.add_counts(evaluations=len(scen))
    return {"states": states, "transitions": trans, "applicable": applicable, "reached": reached, "distinct": len(distinct),
            "traces": stats["traces"], "lines": stats["lines"], "catalogue": cat_total, "scenarios": len(scen)}
