"""C01 - every signature a session returns is valid under an independent verifier."""
import vlib, keylife as kl

PROP = "C01"


def run(tier):
    rep = vlib.Report(PROP, "model_checking", tier)
    wd = vlib.workdir(PROP)
    vlib.build(["klife"])
    quick = tier == "quick"
    sd = vlib.seed()
    states = trans = 0
    # GF(7) with n <= 4 does not finish in half an hour: the thorough tier takes GF(7) n <= 3 and GF(5) n <= 4
    r = kl.shamir_laws(wd, rep, 5 if quick else 7, 3)
    if not quick:
        r4 = kl.shamir_laws(wd, rep, 5, 4)
        vlib.tlc_must_pass(r4, "ShamirLaws.tla GF(5) n<=4")
        states_extra = r4["distinct"]
    else:
        states_extra = 0
    vlib.tlc_must_pass(r, "ShamirLaws.tla")
    states += r["distinct"] + states_extra; trans += r["generated"]
    rep.notes.append("ShamirLaws.tla: SignShareSum (Lagrange-scaled shares of EVERY signer set larger than t sum to the key) holds in %d configurations" % r["distinct"])
    worlds = []
    cfgs = [(2, 1), (3, 1), (3, 2), (4, 2), (2, 0), (3, 0)] if quick else [(n, t) for n in range(2, 5) for t in range(0, n)]
    per = 60 if quick else 500
    for n, t in cfgs:
        allh, r = kl.histories(wd, n, t, maxops=1 if quick else 2)
        states += r["distinct"]; trans += r["generated"]
        # signing probes with consistent material (fresh, refreshed, derived) - and undersized sets, which must be refused
        hs = [h for h in allh if h["probe"]["kind"] == "sign" and h["probe"]["expect"] in ("ok", "refused") and not kl.has_op(h, "store")]
        if t == 0:
            hs = [h for h in hs if not kl.has_op(h, "refresh")]
        for scheme, shape in (("frost", "short"), ("taproot", "utf8"), ("frost", "long40")):
            worlds.append({"scheme": scheme, "n": n, "t": t, "ids": shape, "hists": kl.sample(hs, per, sd, "c01%s%d%d%s" % (scheme, n, t, shape))})
    # Doerner
    allh, r = kl.histories(wd, 2, 1, additive=True, maxops=1 if quick else 2)
    states += r["distinct"]; trans += r["generated"]
    hs = [h for h in allh if h["probe"]["kind"] == "sign" and h["probe"]["expect"] in ("ok", "refused") and not kl.has_op(h, "store")]
    worlds.append({"scheme": "doerner", "n": 2, "t": 1, "ids": "short", "hists": kl.sample(hs, 30 if quick else 200, sd, "c01doerner")})
    # CMP (sign, and presign + online sign): trusted-dealer material, non-prefix signer subsets
    for n, t, k in ([(3, 1, 5), (3, 2, 2), (4, 1, 4)] if quick else [(3, 1, 40), (3, 2, 20), (4, 2, 40), (2, 1, 20), (4, 3, 10), (3, 0, 10)]):
        allh, r = kl.histories(wd, n, t, maxops=1)
        states += r["distinct"]; trans += r["generated"]
        # (a CMP session of a single party never returns from its constructor: known finding of C20, not repeated here)
        hs = [h for h in allh if h["probe"]["kind"] == "sign" and h["probe"]["expect"] == "ok" and not kl.has_op(h, "store") and not kl.has_op(h, "refresh")
              and len(h["probe"]["S"]) >= 2]
        # prefer small, non-prefix signer sets (cost grows with the square of the set size)
        hs.sort(key=lambda h: (len(h["probe"]["S"]), -sum(h["probe"]["S"])))
        worlds.append({"scheme": "cmp", "n": n, "t": t, "ids": "short", "deal": True, "hists": kl.sample(hs[:max(k * 3, 6)], k, sd, "c01cmp%d%d" % (n, t))})
    results = kl.run_worlds(wd, worlds, sd)
    st = kl.report(rep, results, {"C01"})
    rep.add_counts(evaluations=st["evaluations"])
    rep.cov.update({"states": states, "transitions": trans, "traces_validated_against_impl": st.get("probes", 0),
                    "real_sessions": st.get("sessions", 0),
                    "rule": "KeyLife.tla (TLC) enumerates histories (fresh / refreshed / derived material) ending in a signing session of every signer subset; expected outcome: a signature iff the set is larger than the threshold. Each is run on the real protocols under a random schedule with digests of 1, 20, 32, 33 and 64 bytes; every returned signature is judged by an independent ECDSA / Schnorr / BIP-340 verifier under the key fixed at key generation, all signers must return the same signature, and an all-honest session must complete"})
    rep.assumptions += ["CMP sessions start from trusted-dealer key material (key generation itself is C02's subject)"]
    return rep.finish()
