#!/bin/bash
# usage: trymut.sh <patch.diff> <PROP> [tier]   - applies a seeded change to /repo, runs the check, restores /repo
set -u
P=$1; PROP=$2; TIER=${3:-quick}
cd /repo || exit 2
if ! git diff --quiet; then echo "/repo is dirty"; exit 2; fi
git apply "$P" || { echo "patch does not apply"; exit 2; }
( cd /verif && timeout 3000 bin/check "$PROP" "$TIER" > /tmp/trymut_$PROP.out 2>&1; echo "rc=$?" >> /tmp/trymut_$PROP.out )
git checkout -- . ; git clean -fdq -- . 2>/dev/null
grep -c "^VIOLATION" /tmp/trymut_$PROP.out | sed "s/^/violations: /"
grep -A1 "^VIOLATION" /tmp/trymut_$PROP.out | grep "what:" | head -4 | cut -c1-300
tail -1 /tmp/trymut_$PROP.out
