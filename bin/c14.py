"""C14 - chain keys agree and BIP-32 derivation matches the standard."""
import vlib, keylife as kl

PROP = "C14"


def run(tier):
    rep = vlib.Report(PROP, "model_checking", tier)
    wd = vlib.workdir(PROP)
    vlib.build(["klife"])
    quick = tier == "quick"
    sd = vlib.seed()
    states = trans = 0
    # GF(7) with n <= 4 does not finish in half an hour: the thorough tier takes GF(7) n <= 3 and GF(5) n <= 4
    r = kl.shamir_laws(wd, rep, 5 if quick else 7, 3)
    if not quick:
        r4 = kl.shamir_laws(wd, rep, 5, 4)
        vlib.tlc_must_pass(r4, "ShamirLaws.tla GF(5) n<=4")
        states_extra = r4["distinct"]
    else:
        states_extra = 0
    vlib.tlc_must_pass(r, "ShamirLaws.tla")
    states += r["distinct"] + states_extra; trans += r["generated"]
    rep.notes.append("ShamirLaws.tla: DeriveShiftsKey and NegateConsistent hold in %d configurations" % r["distinct"])
    worlds = []
    per = 80 if quick else 600
    for n, t in ([(2, 1), (3, 1), (3, 2), (3, 0)] if quick else [(n, t) for n in range(1, 5) for t in range(0, n)]):
        for eveny, scheme, shape in ((False, "frost", "short"), (True, "taproot", "utf8")):
            allh, r = kl.histories(wd, n, t, eveny=eveny, maxops=2 if quick else 3, indices=(0, 1) if quick else (0, 1, 2))
            states += r["distinct"]; trans += r["generated"]
            hs = [h for h in allh if kl.has_op(h, "derive") and (t > 0 or not kl.has_op(h, "refresh")) and h["probe"]["expect"] != "mixed"]
            worlds.append({"scheme": scheme, "n": n, "t": t, "ids": shape, "hists": kl.sample(hs, per, sd, "c14%s%d%d" % (scheme, n, t))})
    allh, r = kl.histories(wd, 2, 1, additive=True, maxops=2 if quick else 3)
    states += r["distinct"]; trans += r["generated"]
    hs = [h for h in allh if kl.has_op(h, "derive") and h["probe"]["expect"] != "mixed"]
    worlds.append({"scheme": "doerner", "n": 2, "t": 1, "ids": "short", "hists": kl.sample(hs, 40 if quick else 300, sd, "c14doerner")})
    for n, t, k in ([(3, 1, 4)] if quick else [(2, 1, 20), (3, 1, 30), (4, 2, 16)]):
        allh, r = kl.histories(wd, n, t, maxops=2)
        states += r["distinct"]; trans += r["generated"]
        hs = [h for h in allh if kl.has_op(h, "derive") and not kl.has_op(h, "refresh") and not kl.has_op(h, "store")
              and h["probe"]["expect"] == "ok" and len(h["probe"]["S"]) <= 2]
        worlds.append({"scheme": "cmp", "n": n, "t": t, "ids": "short", "deal": True, "hists": kl.sample(hs, k, sd, "c14cmp%d%d" % (n, t))})
    results = kl.run_worlds(wd, worlds, sd)
    st = kl.report(rep, results, {"C14"})
    rep.add_counts(evaluations=st["evaluations"])
    rep.cov.update({"states": states, "transitions": trans, "traces_validated_against_impl": st.get("probes", 0),
                    "real_sessions": st.get("sessions", 0), "derivations": st.get("derivations", 0),
                    "rule": "KeyLife.tla (TLC) enumerates histories with derivations (paths up to length 2-3, indices 0, 2^31-1, 1, 77777, 2, 2^30; interleaved with refresh and store/restore) ending in a signing session or reconstruction. On real CMP / FROST / Taproot / Doerner material: after key generation all parties hold the same 32-byte chain key; after each derivation the child public key and chain code of EVERY party equal an independent BIP-32 CKDpub (HMAC-SHA512 over math/big secp256k1, even-Y rule for Taproot), the derived shares satisfy the key-generation conditions, and signing with derived material yields a valid signature under the child key"})
    return rep.finish()
