"""C13 - OT-based multiplication is correct for all inputs.

OTAlg.tla  : the defining relations of the OT stack as exact small-parameter algebra (TLC, exhaustive within bounds),
             plus the bit-position / gadget-exponent tables at the real sizes that the Go oracle addresses bits with.
OTFlow.tla : the message flows with an adversary altering one field of one message of one run; TLC derives the outcome
             of every run of every case and prints the cases.
cmd/otdrv  : replays every printed case on the real internal/ot at real size; oracles over math/big.
"""
import collections, json, os, re
from concurrent.futures import ThreadPoolExecutor
import vlib

PROP = "C13"
POINTS = {"zero", "one", "two", "qm1", "qm2", "half", "rand"}
PATTERNS = {"zeros", "ones", "alt", "unit", "rand", "tiny"}
LAYERS = {"rot", "setup", "cot", "eot", "aot", "mul"}
ALG_DEFAULT = {"W": 2, "KAPPA": 4, "BATCH": 4, "Q": 7, "NPOWB": 2, "NNOISE": 2, "Variant": "code", "Full": True}


def printed(out, tag):
    """like vlib.printed, but also for values TLC wraps over several lines"""
    vals = []
    for m in re.finditer(r'<<\s*"%s",\s*("(?:[^"\\]|\\.)*")\s*>>' % tag, out, re.S):
        vals.append(json.loads(json.loads(m.group(1))))
    return vals


def alg_jobs(quick):
    """(name, constants, must_be_rejected)"""
    def j(mode, **kw):
        c = dict(ALG_DEFAULT)
        c.update(kw)
        c["MODE"] = mode
        return c
    jobs = [
        ("transpose 4x2 all matrices", j("transpose", BATCH=2), False),
        ("transpose 4x4 <=2 ones", j("transpose", Full=False), False),
        ("transpose 8x8 W=4 <=2 ones", j("transpose", W=4, KAPPA=8, BATCH=8, NNOISE=4, Full=False), False),
        ("cot 4x4 all Delta, all choices", j("cot", Full=False), False),
        ("clmul 4 bits", j("clmul"), False),
        ("clmul 8 bits, W=4", j("clmul", W=4, KAPPA=8, BATCH=8, NNOISE=4), False),
        ("mono 4x4", j("mono", Full=False), False),
        ("gadget q=7", j("gadget"), False),
        ("gadget q=11", j("gadget", Q=11), False),
        ("share q=7", j("share", Full=False), False),
        ("tables at real size", j("tables", W=8, KAPPA=128, BATCH=8, NPOWB=32, NNOISE=416), False),
    ]
    if not quick:
        jobs += [
            ("transpose 4x4 all matrices", j("transpose"), False),
            ("cot 4x4 full", j("cot"), False),
            ("cot 8x4 W=2", j("cot", KAPPA=8, Full=False), False),
            ("mono 4x4 full", j("mono"), False),
            ("gadget q=7, 4 noise elements", j("gadget", NNOISE=4), False),
            ("gadget q=13, 3-bit bytes", j("gadget", Q=13, W=3, KAPPA=6, BATCH=6, NPOWB=2, NNOISE=3), False),
            ("share q=7 full", j("share"), False),
            ("share q=11", j("share", Q=11, Full=False), False),
            # negative controls: deliberately wrong transcriptions that TLC must reject
            ("NEG transpose msb-write", j("transpose", BATCH=2, Variant="msb-write"), True),
            ("NEG cot msb-bitat", j("cot", Full=False, Variant="msb-bitat"), True),
            ("NEG gadget little-endian", j("gadget", Variant="le-gadget"), True),
        ]
    return jobs


def run_alg(wd, n, name, consts, workers, sd):
    d = os.path.join(wd, "alg%02d" % n)
    os.makedirs(d, exist_ok=True)
    c = vlib.cfg(consts, init="Init", next_="Next", invariants=["Law"])
    w = 1 if consts["MODE"] == "tables" else workers
    return vlib.tlc(d, "OTAlg", c, workers=w, timeout=1500, seed_=sd)


def run_flow(wd, tp, maxruns, variant, sd):
    d = os.path.join(wd, "flow_" + variant)
    os.makedirs(d, exist_ok=True)
    c = vlib.cfg({"Layers": LAYERS, "Points": POINTS, "TamperPairs": "<- " + tp, "Patterns": PATTERNS,
                  "MaxRuns": maxruns, "Variant": variant},
                 spec="Spec", invariants=["NoWrong", "HonestOK", "NoncesDistinct", "CheckingSide", "Emit"],
                 properties=["Terminates"])
    return vlib.tlc(d, "OTFlow", c, workers=1, timeout=1500, seed_=sd)


def vkey(f):
    c = f.get("case") or {}
    return {"class": f["class"], "site": f["site"], "layer": c.get("layer", "setup"), "m": c.get("m", "none"),
            "f": c.get("f", "none"), "kind": c.get("kind", "none"),
            "pat": c.get("pat", "none") if c.get("layer") in ("cot", "eot", "aot") else "none"}


def run(tier):
    rep = vlib.Report(PROP, "exploration", tier)
    wd = vlib.workdir(PROP)
    vlib.build(["otdrv"])
    otdrv = os.path.join(vlib.HBIN, "otdrv")
    sd = vlib.seed()
    quick = tier == "quick"
    ncpu = os.cpu_count() or 4
    states = trans = 0

    # ---- 1. TLC: OTAlg modes and OTFlow, side by side
    jobs = alg_jobs(quick)
    tp, maxruns = ("TPQuick", 2) if quick else ("TPAll", 3)
    with ThreadPoolExecutor(max_workers=max(2, ncpu // 3)) as ex:
        futs = [(name, consts, neg, ex.submit(run_alg, wd, n, name, consts, 3, sd)) for n, (name, consts, neg) in enumerate(jobs)]
        flow_f = ex.submit(run_flow, wd, tp, maxruns, "code", sd)
        neg_f = None if quick else ex.submit(run_flow, wd, "TPQuick", 1, "nocheck", sd)
        tables = None
        for name, consts, neg, fu in futs:
            r = fu.result()
            if neg:
                if r["ok"] or r.get("violated") != "Law":
                    raise vlib.Inconclusive("negative control '%s' was not rejected by TLC: see %s" % (name, r["dir"]))
                rep.notes.append("OTAlg.tla %s: rejected by TLC as it must be (invariant Law violated)" % name)
                continue
            vlib.tlc_must_pass(r, "OTAlg.tla " + name)
            states += r["distinct"]; trans += r["generated"]
            rep.notes.append("OTAlg.tla %s: %d cases, relation holds on all (%.1fs)" % (name, r["distinct"], r["wall"]))
            if consts["MODE"] == "tables":
                bp, ge, sz = printed(r["out"], "BITPOS"), printed(r["out"], "GADGETEXP"), printed(r["out"], "SIZES")
                if not (bp and ge and sz):
                    raise vlib.Inconclusive("OTAlg tables were not printed: %s" % r["dir"])
                tables = {"bitpos": bp[0], "gadgetexp": ge[0], "sizes": sz[0]}
        r = flow_f.result()
        vlib.tlc_must_pass(r, "OTFlow.tla %s MaxRuns=%d" % (tp, maxruns))
        states += r["distinct"]; trans += r["generated"]
        cases = printed(r["out"], "CASE")
        if not cases:
            raise vlib.Inconclusive("OTFlow printed no cases")
        rep.notes.append("OTFlow.tla %s MaxRuns=%d: %d states, %d cases printed; NoWrong, HonestOK, CheckingSide, NoncesDistinct, termination hold (%.1fs)"
                         % (tp, maxruns, r["distinct"], len(cases), r["wall"]))
        if neg_f is not None:
            rn = neg_f.result()
            if rn["ok"] or rn.get("violated") != "NoWrong":
                raise vlib.Inconclusive("negative control OTFlow Variant=nocheck was not rejected: %s" % rn["dir"])
            rep.notes.append("OTFlow.tla Variant=nocheck (integrity check removed): rejected by TLC (NoWrong violated), as it must be")
    if tables is None:
        raise vlib.Inconclusive("no tables")
    tf = os.path.join(wd, "tables.json")
    json.dump(tables, open(tf, "w"))
    cf = os.path.join(wd, "cases.jsonl")
    with open(cf, "w") as fh:
        for c in cases:
            fh.write(json.dumps(c, sort_keys=True) + "\n")

    # ---- 2. replay every case on the real code (sharded over processes; randomness per case from the seed)
    shards = max(1, min(ncpu, 16))
    def drv(i):
        out = os.path.join(wd, "res%02d.json" % i)
        p = vlib.run([otdrv, "-cases", cf, "-tables", tf, "-seed", str(sd), "-shard", str(i), "-of", str(shards), "-out", out],
                     timeout=3000)
        if p.returncode != 0:
            raise vlib.Inconclusive("otdrv shard %d failed (%d): %s" % (i, p.returncode, (p.stdout + p.stderr)[-2000:]))
        return json.load(open(out))
    with ThreadPoolExecutor(max_workers=shards) as ex:
        results = list(ex.map(drv, range(shards)))

    tot = collections.Counter()
    by_layer, by_outcome = collections.Counter(), collections.Counter()
    failures, divergences, samples = [], [], []
    for res in results:
        for k in ("cases", "runs", "relation_checks", "reached", "noop_alterations"):
            tot[k] += res[k]
        by_layer.update(res["by_layer"]); by_outcome.update(res["by_outcome"])
        failures += res["failures"]; divergences += res["divergences"]
        samples += res["samples"]
    seen = set()
    for want in ("mul/M2", "mul/M1", "rot/Ch", "mul/none", "setup/M0", "cot/none", "rot/De", "eot/none", "aot/none"):
        for s in samples:      # one written-out case per kind of flow, tampered ones first
            k = "%s/%s" % (s["case"]["layer"], s["case"]["m"])
            if k == want and (k, tuple(s["observed"])) not in seen and len([x for x in seen if x[0] == k]) < 2:
                seen.add((k, tuple(s["observed"])))
                rep.sample(s, limit=8)
    if tot["cases"] != len(cases):
        raise vlib.Inconclusive("otdrv replayed %d of %d cases" % (tot["cases"], len(cases)))

    what = {"panic": "the real code panics where the property requires an error or a result",
            "wrong-product": "both sides of the multiplication finish without error and shareA + shareB != alpha*beta",
            "wrong-pad": "the random OT finishes on both sides and the receiver's pad is not the one it chose",
            "relation": "an OT layer finishes and its defining relation does not hold",
            "honest-error": "an untampered run ends in an error",
            "wrong-side": "an altered message passes the side that checks it (the error comes only from the other side)"}
    for f in failures:
        c = f.get("case") or {}
        rep.violation(vkey(f), "%s: %s [%s %s/%s/%s at %s]" % (f["class"], what.get(f["class"], f["what"]), c.get("layer"), c.get("m"),
                                                            c.get("f"), c.get("kind"), f["site"]), f)

    rep.add_counts(evaluations=tot["runs"], distinct_nontrivial=tot["reached"])
    rep.cov.update({"states": states, "transitions": trans, "cases_from_tlc": len(cases), "relation_checks": tot["relation_checks"],
                    "noop_alterations": tot["noop_alterations"], "cases_by_layer": dict(by_layer), "runs_by_outcome": dict(by_outcome),
                    "expected_outcome_divergences": len(divergences), "exhaustive": True,
                    "rule": "cases = every element of the lattice OTFlow.tla enumerates (layer x scalar pair x choice pattern x runs over one setup "
                            "x tampered run x (message, field, index class, alteration kind)); each is replayed once on internal/ot at real size with "
                            "randomness derived from the seed and the case; evaluations = protocol runs executed and judged; a case is distinct by its "
                            "lattice coordinates and non-trivial when the code under test was reached and the alteration (if any) changed the value"})
    rep.assumptions += [
        "OTAlg.tla is small-parameter design checking (kappa <= 8, batch <= 8, q <= 13): it decides the relations for the transcribed indexing and "
        "formulas, not for the Go code; the link to the code is that the Go oracle addresses bits / gadget exponents through the tables TLC printed",
        "altered values differ from honest ones and checks catch them except with negligible probability (2^-128 / 1/q); asserted on the real code only",
        "the library's hash package is used to derive context hashes / PRG keys for the oracle of the transposition (it is context, not under test); "
        "field arithmetic, GF(2)[x] products and bit addressing of the oracle are independent (math/big)",
        "crypto/rand.Reader is replaced by a deterministic stream derived from VERIF_SEED and the case"]
    rc = rep.finish()
    if divergences and rc == 0:
        with open(os.path.join(wd, "divergences.json"), "w") as fh:
            json.dump(divergences, fh, indent=1)
        d = divergences[0]
        raise vlib.Inconclusive("%d case(s) end in an outcome the property allows but OTFlow.tla does not derive (the model does not describe the code): "
                                "first: case=%s observed=%s expected=%s; all in %s/divergences.json"
                                % (len(divergences), json.dumps(d["case"], sort_keys=True), d["observed"], d["case"]["expect"], wd))
    return rc
