"""C08 - refresh preserves the key and retires old shares, across any history."""
import vlib, keylife as kl

PROP = "C08"


def run(tier):
    rep = vlib.Report(PROP, "model_checking", tier)
    wd = vlib.workdir(PROP)
    vlib.build(["klife"])
    quick = tier == "quick"
    sd = vlib.seed()
    states = trans = 0
    # GF(7) with n <= 4 does not finish in half an hour: the thorough tier takes GF(7) n <= 3 and GF(5) n <= 4
    r = kl.shamir_laws(wd, rep, 5 if quick else 7, 3)
    if not quick:
        r4 = kl.shamir_laws(wd, rep, 5, 4)
        vlib.tlc_must_pass(r4, "ShamirLaws.tla GF(5) n<=4")
        states_extra = r4["distinct"]
    else:
        states_extra = 0
    vlib.tlc_must_pass(r, "ShamirLaws.tla")
    states += r["distinct"] + states_extra; trans += r["generated"]
    rep.notes.append("ShamirLaws.tla: RefreshKeepsKey and MixedEpochsMiss hold in %d configurations" % r["distinct"])
    worlds = []
    per = 80 if quick else 800
    for n, t in ([(2, 1), (3, 1), (3, 2), (4, 2)] if quick else [(n, t) for n in range(2, 5) for t in range(1, n)]):
        allh, r = kl.histories(wd, n, t, maxops=2 if quick else 3, subset_refresh=True)
        states += r["distinct"]; trans += r["generated"]
        hs = [h for h in allh if kl.has_op(h, "refresh")]
        # a refresh attempted by a strict subset of the shareholders (possible when t < n-1) must be refused
        sub = [h for h in allh if kl.has_op(h, "refresh-subset")]
        for scheme, shape in (("frost", "short"), ("taproot", "long40")):
            worlds.append({"scheme": scheme, "n": n, "t": t, "ids": shape,
                           "hists": kl.sample(hs, per, sd, "c08%s%d%d" % (scheme, n, t)) + kl.sample(sub, per // 4, sd, "c08sub%s%d%d" % (scheme, n, t))})
    allh, r = kl.histories(wd, 2, 1, additive=True, maxops=2 if quick else 3)
    states += r["distinct"]; trans += r["generated"]
    hs = [h for h in allh if kl.has_op(h, "refresh")]
    worlds.append({"scheme": "doerner", "n": 2, "t": 1, "ids": "short", "hists": kl.sample(hs, 40 if quick else 400, sd, "c08doerner")})
    # CMP: one real refresh per world (about 10 s), then a few probes incl. stale material
    for n, t, k in ([(2, 1, 4), (3, 1, 4)] if quick else [(2, 1, 30), (3, 1, 30), (3, 2, 20), (4, 2, 12)]):
        allh, r = kl.histories(wd, n, t, maxops=1, kinds=("sign", "reconstruct", "online"))
        states += r["distinct"]; trans += r["generated"]
        hs = [h for h in allh if kl.has_op(h, "refresh") and len(h["probe"]["S"]) <= 2]
        mixed = [h for h in hs if h["probe"]["expect"] == "mixed" and h["probe"]["kind"] != "online"]
        ok = [h for h in hs if h["probe"]["expect"] == "ok" and h["probe"]["kind"] != "online"]
        # presign before the refresh, sign online after it: some signer on pre-refresh material / all on refreshed material
        online = [h for h in hs if h["probe"]["kind"] == "online" and h["probe"]["expect"] == "mixed"]
        online_ok = [h for h in hs if h["probe"]["kind"] == "online" and h["probe"]["expect"] == "ok"]
        ko = max(1, k // 4)
        worlds.append({"scheme": "cmp", "n": n, "t": t, "ids": "short", "deal": True,
                       "hists": kl.sample(mixed, k // 2, sd, "c08cmpm%d%d" % (n, t)) + kl.sample(ok, k - k // 2, sd, "c08cmpo%d%d" % (n, t)) +
                                kl.sample(online, ko, sd, "c08cmpon%d%d" % (n, t)) + kl.sample(online_ok, ko, sd, "c08cmpoo%d%d" % (n, t))})
    results = kl.run_worlds(wd, worlds, sd)
    st = kl.report(rep, results, {"C08"})
    rep.add_counts(evaluations=st["evaluations"])
    rep.cov.update({"states": states, "transitions": trans, "traces_validated_against_impl": st.get("probes", 0),
                    "real_sessions": st.get("sessions", 0),
                    "rule": "KeyLife.tla (TLC) enumerates histories with refreshes (interleaved with derivations and store/restore) ending in a signing session or a reconstruction in which every participant uses SOME version it still holds; expected: success iff all use the same version. Run on the real protocols: after each refresh the group key is unchanged, the new material satisfies the key-generation conditions, every secret share changed, a new share mixed with old ones does not give the key; a session with stale material must not return a signature valid under any version's key"})
    rep.assumptions += ["old material is captured by deep copies taken before the refresh (FROST refresh changes the caller's share object in place)"]
    return rep.finish()
