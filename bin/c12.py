"""C12 - Paillier encryption and MtA are exact on their full domain.

Paillier.tla / MtA.tla (exact textbook arithmetic on tiny keys, checked exhaustively by TLC) print their tables and a symbolic
boundary lattice; paillierdrv makes the real package answer for every table entry on the same tiny keys (table equality) and
for every lattice case on real 2048-bit keys (class from the specification, value from an independent math/big Paillier),
and drives mta.ProveAffG / ProveAffP over the scalar lattice."""
import json, os
from concurrent.futures import ThreadPoolExecutor
import vlib
from vlib import Raw

PROP = "C12"
PRIMES = os.path.join(vlib.VERIF, "fixtures", "safeprimes.json")


def _set(xs):
    return Raw("{" + ", ".join('"%s"' % x for x in xs) + "}")


def _pa_cfg(p, q, tables, variant="textbook", emit=True):
    inv = ["LawEncDec", "LawRange", "LawAdd", "LawMul", "LawVal", "LawLat"] + (["Emit"] if emit else [])
    return vlib.cfg({"P": p, "Q": q, "Variant": variant, "Tables": _set(tables)}, init="Init", next_="Next", invariants=inv)


def _mta_cfg(p, q, sp, sq, mode):
    return vlib.cfg({"P": p, "Q": q, "SP": sp, "SQ": sq, "Variant": "textbook", "Tables": Raw("{}"), "BetaMode": mode},
                    init="MInit", next_="MNext", invariants=["LawMta", "LawBound", "MEmit"])


def _term_key(t):
    return (t["t"], t["a"], t["b"], t["name"])


def _drv(args, timeout=3000):
    p = vlib.run([os.path.join(vlib.HBIN, "paillierdrv")] + args, timeout=timeout)
    if p.returncode != 0:
        raise vlib.Inconclusive("paillierdrv %s failed: %s" % (" ".join(args[:2]), (p.stdout + p.stderr)[-2000:]))


def run(tier):
    rep = vlib.Report(PROP, "model_checking", tier)
    wd = vlib.workdir(PROP)
    vlib.build(["paillierdrv"])
    sd = vlib.seed()
    quick = tier == "quick"

    # ---- 1. TLC: exact Paillier / MtA on tiny keys (gcd(N, phi) = 1), all laws as invariants, tables printed
    full = [(3, 11), (7, 11)] if quick else [(3, 11), (7, 11), (3, 5), (5, 7), (7, 23)]
    lat_only = [(7, 19), (7, 23), (11, 19), (3, 23)] if quick else [(7, 19), (11, 19), (3, 23)]
    mtas = [(3, 11, 5, 7, "all"), (7, 11, 3, 11, "lattice")] if quick else \
           [(3, 11, 5, 7, "all"), (7, 11, 3, 11, "lattice"), (7, 11, 5, 7, "all"), (5, 7, 7, 11, "all")]
    jobs = []
    for (p, q) in full:
        blum = (p * q) % 4 == 1       # the lattice classes are stated for N = 1 (mod 4), as every product of two Blum primes is
        tables = ["enc", "add", "mul", "val"] + (["lat"] if blum else [])
        jobs.append(("pa", (p, q), "Paillier", _pa_cfg(p, q, tables), "Paillier.tla %dx%d full tables" % (p, q)))
    for (p, q) in lat_only:
        jobs.append(("lat", (p, q), "Paillier", _pa_cfg(p, q, ["lat"]), "Paillier.tla %dx%d lattice" % (p, q)))
    for m in mtas:
        jobs.append(("mta", m, "MtA", _mta_cfg(*m), "MtA.tla %dx%d sender %dx%d beta=%s" % m))

    def one(i_job):
        i, (kind, key, module, cfg, what) = i_job
        d = os.path.join(wd, "j%d" % i)
        os.makedirs(d, exist_ok=True)
        return vlib.tlc(d, module, cfg, workers=1, timeout=840 if not quick else 80, seed_=sd, javaopts="-XX:ParallelGCThreads=2")

    with ThreadPoolExecutor(max_workers=min(len(jobs), max(2, (os.cpu_count() or 4) // 2))) as ex:
        results = list(ex.map(one, enumerate(jobs)))

    states = trans = 0
    tiny_files, lat_by_inst, mlat = [], {}, None
    for (kind, key, module, cfg, what), r in zip(jobs, results):
        vlib.tlc_must_pass(r, what)
        states += r["distinct"]
        trans += r["generated"]
        rows = vlib.printed(r["out"], "ROW")
        if kind in ("pa", "mta"):
            if not rows:
                raise vlib.Inconclusive("%s printed no table" % what)
            hdr = {"P": key[0], "Q": key[1]}
            if kind == "mta":
                hdr.update({"SP": key[2], "SQ": key[3]})
                ml = vlib.printed(r["out"], "MLAT")
                if mlat is None:
                    mlat = ml
                elif sorted(json.dumps(x, sort_keys=True) for x in ml) != sorted(json.dumps(x, sort_keys=True) for x in mlat):
                    raise vlib.Inconclusive("MtA.tla scalar lattice differs between instances")
            f = os.path.join(wd, "%s_%s.jsonl" % (kind, "_".join(str(x) for x in key)))
            with open(f, "w") as fh:
                fh.write(json.dumps(hdr) + "\n")
                for row in rows:
                    fh.write(json.dumps(row) + "\n")
            tiny_files.append(f)
        lat = vlib.printed(r["out"], "LAT")
        if lat:
            lat_by_inst[key[:2]] = lat
        rep.notes.append("%s: %d rows (states), %d table rows printed, %d lattice cases, laws hold (%.1fs)" % (what, r["distinct"], len(rows), len(lat), r["wall"]))
    if not mlat or len(lat_by_inst) < 3:
        raise vlib.Inconclusive("specification printed no lattice")

    # ---- the symbolic lattice: the class of a case is used at real size only if every tiny instance decides it the same way
    agg = {}
    for inst, lat in lat_by_inst.items():
        for c in lat:
            k = (c["op"], _term_key(c["x"]), _term_key(c["y"]))
            e = agg.setdefault(k, {"case": c, "classes": {}})
            e["classes"][inst] = c["class"]
    lat_cases, unanimous = [], 0
    for k in sorted(agg, key=lambda z: json.dumps(z)):
        e = agg[k]
        c = dict(e["case"])
        c["unanimous"] = len(e["classes"]) == len(lat_by_inst) and len(set(e["classes"].values())) == 1
        unanimous += c["unanimous"]
        lat_cases.append(c)
    latf = os.path.join(wd, "lattice.jsonl")
    with open(latf, "w") as fh:
        for c in lat_cases:
            fh.write(json.dumps(c) + "\n")
    mlatf = os.path.join(wd, "mlattice.jsonl")
    with open(mlatf, "w") as fh:
        for c in mlat:
            fh.write(json.dumps(c) + "\n")
    rep.notes.append("boundary lattice: %d symbolic cases, %d with the same class on all %d tiny instances %s; the others are compared by value only" % (
        len(lat_cases), unanimous, len(lat_by_inst), sorted(lat_by_inst)))

    # ---- negative control (thorough only): a Dec without sign handling / a shifted range must be rejected by TLC
    if not quick:
        for variant, law in (("nosym", "LawEncDec"), ("halfopen", "LawRange")):
            r = vlib.tlc(os.path.join(wd, "neg_" + variant), "Paillier", _pa_cfg(3, 11, ["enc"], variant=variant, emit=False), workers=4, timeout=300)
            if r["ok"] or r["violated"] != law:
                raise vlib.Inconclusive("negative control %s was not rejected by %s (violated=%s)" % (variant, law, r["violated"]))
            rep.notes.append("negative control Variant=%s rejected by TLC (%s)" % (variant, law))

    # ---- 2. conformance of the real package (the three driver phases share the cores)
    tiny_out = os.path.join(wd, "tiny.json")
    lat_out = os.path.join(wd, "lat.json")
    shards = max(2, min(12, (os.cpu_count() or 4) - 2))
    pairs = 1 if quick else 4

    def phase(i):
        if i == 0:
            _drv(["-mode", "tiny", "-in", ",".join(tiny_files), "-seed", str(sd), "-out", tiny_out])
            return ("tiny", json.load(open(tiny_out)))
        if i == 1:
            _drv(["-mode", "lattice", "-in", latf, "-primes", PRIMES, "-keys", "2" if quick else "12", "-frac", "4" if quick else "1",
                  "-seed", str(sd), "-out", lat_out])
            return ("real", json.load(open(lat_out)))
        o = os.path.join(wd, "mta_%d.json" % (i - 2))
        _drv(["-mode", "mta", "-in", mlatf, "-primes", PRIMES, "-keys", str(pairs), "-seed", str(sd),
              "-shard", str(i - 2), "-shards", str(shards), "-out", o] + (["-small"] if quick else []))
        return ("real-mta", json.load(open(o)))

    with ThreadPoolExecutor(max_workers=shards + 2) as ex:
        outs = list(ex.map(phase, range(shards + 2)))

    confirmed = evals = 0
    by_op = {}
    oddities = {}
    keys = []
    for scale, r in outs:
        if r["oracle_mismatch"]:
            raise vlib.Inconclusive("the driver's math/big oracle disagrees with the specification's table (harness problem): %s" % json.dumps(r["oracle_mismatch"][:3]))
        confirmed += r["cases_confirmed"]
        evals += r["evaluations"]
        keys += r["keys"] or []
        for k, v in r["by_op"].items():
            by_op[k] = by_op.get(k, 0) + v
        for k, v in (r.get("oddities") or {}).items():
            oddities[k] = oddities.get(k, 0) + v
        for f in r["failures"]:
            sc = "tiny" if scale == "tiny" else "real"
            rep.violation({"op": f["op"], "class": f["class"], "scale": sc},
                          "%s on a %s key (%s): %s - the real code disagrees with the specification" % (f["op"], sc, f["key"], f["class"]), f)
        for s in r["samples"]:
            rep.sample(s, limit=8)
        for n in (r.get("notes") or [])[:5]:
            rep.notes.append("%s: %s" % (scale, n))
        if r.get("class_disagree"):
            rep.notes.append("%s: %d lattice cases whose specification class differs from the class at real size (not counted as confirmed): %s" % (
                scale, len(r["class_disagree"]), json.dumps([(c["class"], c["detail"]["x"], c["detail"]["y"]) for c in r["class_disagree"][:4]])))
    for k, v in oddities.items():
        rep.notes.append("oddity (not a violation): %s x%d" % (k, v))

    rep.cov.update({"states": states, "transitions": trans, "traces_validated_against_impl": confirmed,
                    "comparisons_with_real_code": evals, "comparisons_by_operation": by_op, "keys": sorted(set(keys)),
                    "exhaustive": True,
                    "rule": "tiny keys: every row of the tables TLC prints (every plaintext x every unit nonce, every pair of plaintexts, every scalar in "
                            "-(N+2)..N+2, every ciphertext candidate 0..N^2+2N-1, out-of-range plaintexts, MtA over every a, b) is recomputed by the real package "
                            "for both factor orders and for CRT/plain public keys; real keys: every symbolic lattice case whose class all tiny instances agree on, "
                            "value from an independent math/big Paillier; MtA: ProveAffG/ProveAffP on {0,1,2,q-1,q-2,rnd}^2 in both directions of a key pair"})
    rep.add_counts(evaluations=evals)
    rep.assumptions += ["the nonce passed to EncWithNonce is a unit modulo N (the statement quantifies over units only)",
                        "'refused' means EncWithNonce / Enc panic, which is the documented behaviour of the package for an out-of-range plaintext",
                        "tiny keys need gcd(N, phi(N)) = 1, so N = 21 is not a Paillier modulus; 15, 33, 35, 77, 161 are used instead",
                        "internal/mta.newMta is unexported and draws beta from +-2^1280: on tiny keys its composition (Enc(-beta;s).Add(K.Clone().Mul(a))) is replayed through the public paillier API; on real keys it runs through ProveAffG/ProveAffP",
                        "real keys are built from the fixed 1024-bit safe primes in fixtures/safeprimes.json; all library randomness comes from a seeded stream installed as crypto/rand.Reader"]
    return rep.finish()
