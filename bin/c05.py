"""C05 - no network input can crash, hang or exhaust an honest party."""
import vlib, handler_common as hc, adv

PROP = "C05"
STRUCT = sorted(adv.STRUCTURAL | {"zero", "ones", "random", "giant"})


def plan(quick):
    p = [
        {"proto": "frost-keygen", "n": 3, "t": 1, "kinds": ["fault", "hdr"], "alts": STRUCT, "limit": 500 if quick else None},
        {"proto": "frost-sign", "n": 3, "t": 2, "kinds": ["fault", "hdr"], "alts": STRUCT, "limit": 300 if quick else None},
        {"proto": "taproot-sign", "n": 3, "t": 2, "kinds": ["fault", "hdr"], "alts": STRUCT, "limit": 150 if quick else None},
        {"proto": "frost-refresh", "n": 3, "t": 1, "kinds": ["fault", "hdr"], "alts": STRUCT, "limit": 250 if quick else None},
        {"proto": "xor", "n": 3, "t": 0, "kinds": ["fault", "hdr"], "alts": STRUCT},
        {"proto": "toy:b,bm,b", "n": 3, "t": 1, "kinds": ["hdr"], "limit": 150 if quick else None},
        {"proto": "doerner-keygen", "n": 2, "t": 1, "kinds": ["fault", "hdr"], "alts": STRUCT, "limit": 250 if quick else None},
        {"proto": "doerner-sign", "n": 2, "t": 1, "kinds": ["fault", "hdr"], "alts": STRUCT, "limit": 300 if quick else None},
        {"proto": "cmp-sign", "n": 3, "t": 2, "kinds": ["fault", "hdr"], "alts": STRUCT, "limit": 30 if quick else 400},
        {"proto": "cmp-keygen", "n": 3, "t": 1, "kinds": ["fault", "hdr"], "alts": STRUCT, "limit": 8 if quick else 120},
    ]
    # the same handlers with a real worker pool: proofs are verified on worker goroutines, where the handler's recover
    # cannot reach - one case per (message slot, field name) with the field null / absent / empty
    NUL = ["null", "absent", "empty", "emptyarr", "emptymap"]
    p += [
        {"proto": "cmp-keygen", "n": 3, "t": 1, "kinds": ["fault"], "alts": NUL, "pool": True, "fieldwise": True, "limit": 24 if quick else None},
        {"proto": "cmp-sign", "n": 3, "t": 2, "kinds": ["fault"], "alts": NUL, "pool": True, "fieldwise": True, "limit": 12 if quick else None},
        {"proto": "doerner-keygen", "n": 2, "t": 1, "kinds": ["fault"], "alts": NUL, "pool": True, "fieldwise": True},
        {"proto": "doerner-sign", "n": 2, "t": 1, "kinds": ["fault"], "alts": NUL, "pool": True, "fieldwise": True, "limit": 40 if quick else None},
    ]
    # half a megabyte in place of every big number / byte string (one case per field name): time must stay bounded
    p += [
        {"proto": "cmp-sign", "n": 3, "t": 2, "kinds": ["fault"], "alts": ["giant"], "fieldwise": True, "minlen": 100, "limit": 14 if quick else None},
        {"proto": "cmp-keygen", "n": 3, "t": 1, "kinds": ["fault"], "alts": ["giant"], "fieldwise": True, "minlen": 100},   # all 21 fields: six of them sampled let a relaxed bound on the modulus through
        {"proto": "frost-keygen", "n": 3, "t": 1, "kinds": ["fault"], "alts": ["giant"], "fieldwise": True},
        {"proto": "doerner-sign", "n": 2, "t": 1, "kinds": ["fault"], "alts": ["giant"], "fieldwise": True},
    ]
    # announced counts of the hand-written binary encodings (polynomial commitments): 2^32-1, 2^31 and the overflow
    # points floor(2^32 / k) + 1 of every plausible element size k
    p += [
        {"proto": "frost-keygen", "n": 3, "t": 1, "kinds": ["fault"], "alts": ["len*"]},
        {"proto": "frost-refresh", "n": 3, "t": 1, "kinds": ["fault"], "alts": ["len*"], "limit": 150 if quick else None},
    ]
    if not quick:
        p += [{"proto": "cmp-keygen", "n": 3, "t": 1, "kinds": ["fault"], "alts": ["len*"], "limit": 240},
              {"proto": "taproot-keygen", "n": 3, "t": 1, "kinds": ["fault"], "alts": ["len*"]}]
    if not quick:
        p += [
            {"proto": "cmp-refresh", "n": 3, "t": 1, "kinds": ["fault"], "alts": NUL, "pool": True, "fieldwise": True},
            {"proto": "cmp-presign", "n": 3, "t": 2, "kinds": ["fault"], "alts": NUL, "pool": True, "fieldwise": True},
            {"proto": "doerner-refresh", "n": 2, "t": 1, "kinds": ["fault"], "alts": NUL, "pool": True, "fieldwise": True},
        ]
    if not quick:
        p += [
            {"proto": "cmp-refresh", "n": 3, "t": 1, "kinds": ["fault", "hdr"], "alts": STRUCT, "limit": 120},
            {"proto": "cmp-presign", "n": 3, "t": 2, "kinds": ["fault", "hdr"], "alts": STRUCT, "limit": 250},
            {"proto": "cmp-presign-online", "n": 3, "t": 2, "kinds": ["fault", "hdr"], "alts": STRUCT, "limit": 100},
            {"proto": "taproot-keygen", "n": 4, "t": 2, "kinds": ["fault", "hdr"], "alts": STRUCT, "limit": 1000},
            {"proto": "doerner-refresh", "n": 2, "t": 1, "kinds": ["fault", "hdr"], "alts": STRUCT},
        ]
    return p


def run(tier):
    rep = vlib.Report(PROP, "fault_enumeration", tier)
    wd = vlib.workdir(PROP)
    vlib.build(["hadv"])
    quick = tier == "quick"
    # a dealer whose polynomial has the wrong degree but whose shares are consistent with it (state-level deviation)
    dealers = [{"kind": "dealercheat", "proto": p, "n": 3, "t": 1, "byz": b, "alt": a, "sched": vlib.seed() * 5 + i}
               for i, (p, b, a) in enumerate((p, b, a) for p in ("frost-keygen", "frost-refresh", "taproot-keygen", "taproot-refresh")
                                             for b in ("a", "b", "c") for a in ("plus", "minus"))]
    # a malformed chain-key contribution / RID that is committed to consistently (only the validation of the opened value stops it)
    dealers += [{"kind": "dealercheat", "proto": pr, "n": 3, "t": 1, "byz": "abc"[(i + vlib.seed()) % 3], "alt": "commit:" + a, "sched": vlib.seed() * 5 + 200 + i}
                for i, (pr, a) in enumerate((pr, a) for pr in ("frost-keygen", "taproot-keygen", "frost-refresh", "cmp-keygen", "cmp-refresh")
                                            for a in ("c-short", "c-long", "c-empty", "rid-short", "rid-long", "rid-empty", "n-giant") if pr.startswith("cmp") or a.startswith("c-"))]
    # the same for CMP: the polynomial a party deals is replaced at start, so that its commitment, shares and proofs agree with it
    dealers += [{"kind": "dealercheat", "proto": pr, "n": 3, "t": 1, "byz": b, "alt": a, "sched": vlib.seed() * 5 + 100 + i}
                for i, (pr, b, a) in enumerate((pr, b, a) for pr in ("cmp-keygen", "cmp-refresh") for b in ("a", "b", "c")
                                               for a in ("plus", "minus", "nonzero") if not (pr == "cmp-keygen" and a == "nonzero"))]
    # a dealer whose contribution to the key is the identity (zero constant term, forged proof of knowledge)
    dealers += [{"kind": "dealercheat", "proto": pr, "n": 3, "t": 1, "byz": b, "alt": "zero", "sched": vlib.seed() + 400 + i}
                for i, (pr, b) in enumerate((pr, b) for pr in ("frost-keygen", "taproot-keygen", "cmp-keygen") for b in ("a", "b", "c"))]
    # a peer whose messages are all well-formed but computed from inconsistent inputs: the honest side's round fails from
    # the inside (Finalize returns an error) - that path must end as cleanly as a refused message
    dealers += [{"kind": "doernercheat", "proto": "doerner-sign", "n": 2, "t": 1, "byz": b, "rule": r_, "sched": vlib.seed() * 3 + 700 + k}
                for k, (r_, b) in enumerate((r_, b) for r_ in ("share", "public", "ot", "kinv") for b in ("a", "b"))]
    st = adv.run_family(rep, wd, plan(quick), PROP, vlib.seed(), {"C05"}, shards=14, extra_scen=dealers)
    rep.cov.update({"distinct_nontrivial": st["distinct"], "states": st["states"], "transitions": st["transitions"],
                    "traces_validated_against_impl": st["traces"], "trace_lines": st["lines"], "catalogue_cases": st["catalogue"],
                    "scenarios_applicable": st["applicable"], "scenarios_reached": st["reached"],
                    "rule": "FaultCat.tla (TLC) enumerates message slot x field path x structural malformation (null, absent, truncated, extended, empty, over-long collections, all-zero / all-one / random bytes) and slot x header malformation (recipient, sender, round, SSID, protocol, nil / empty / junk data, flipped broadcast flag, echo field) x cheater x recipient; each case is delivered to real honest handlers. The reaction must be one Handler.tla allows (ignore, store, clean abort) - a panic, a hang or the death of the process is a violation keyed by the crashing site; non-trivial = the malformed message reached an honest party"})
    if st["reached"] < 2:
        raise vlib.Inconclusive("the malformed messages did not reach the code under test")
    rep.assumptions += ["handlers run with a nil pool except in the scenarios marked pool (CMP, null / absent fields, one per field name)", "memory is bounded by an address-space limit of 12 GiB per driver process; time by a 120 s limit per call"]
    return rep.finish()
