"""C09 - sessions are isolated from one another."""
import json, os
import vlib, handler_common as hc, adv

PROP = "C09"


def run(tier):
    rep = vlib.Report(PROP, "model_checking", tier)
    wd = vlib.workdir(PROP)
    vlib.build(["hadv", "ssiddrv"])
    quick = tier == "quick"
    sd = vlib.seed()
    states = trans = 0
    # ---- 1. tag derivation: injective over all parameter tuples (Session.tla), byte-exact on the real code
    c = vlib.cfg({"IdLen": True, "MaxParties": 3, "Emit": True}, init="Init", next_="Next", invariants=["Inv"])
    r = vlib.tlc(wd, "Session", c, workers=1, timeout=1500)
    vlib.tlc_must_pass(r, "Session.tla")
    states += r["distinct"]; trans += r["generated"]
    tags = vlib.printed(r["out"], "TAG")
    rep.notes.append("Session.tla: TagInjective and NoConcatAmbiguity hold over all parameter tuples (4 session ids x 3 protocols x group x 41 participant sets x 3 thresholds x aux); %d tag vectors printed" % len(tags))
    if not quick:
        rr = vlib.tlc(wd, "Session", vlib.cfg({"IdLen": False, "MaxParties": 3, "Emit": False}, init="Init", next_="Next", invariants=["Inv"]), workers=1, timeout=1500)
        if not rr["violated"]:
            raise vlib.Inconclusive("negative control failed: ids written without their length should collide")
        rep.notes.append("negative control: with IdLen=FALSE (ids without length, the encoding before the fix) TLC violates %s" % rr["violated"])
    tf = os.path.join(wd, "tags.jsonl")
    with open(tf, "w") as fh:
        for t in tags:
            fh.write(json.dumps(t) + "\n")
    out = os.path.join(wd, "ssid.json")
    auxf = (vlib.printed(r["out"], "AUXF") or [[]])[0]
    if not auxf:
        raise vlib.Inconclusive("Session.tla did not print its key-material fields")
    p = vlib.run([os.path.join(vlib.HBIN, "ssiddrv"), "-tags", tf, "-out", out, "-auxfields", ",".join(sorted(auxf))], timeout=1500)
    if p.returncode != 0:
        raise vlib.Inconclusive("ssiddrv failed: %s" % (p.stdout + p.stderr)[-2000:])
    res = json.load(open(out))
    for f in res["failures"] or []:
        rep.violation({"what": f["what"]}, "session tag of a real session: %s (%s)" % (f["what"], f["detail"]), f)
    rep.add_counts(evaluations=res["evaluations"])
    rep.notes.append("%d of %d tag vectors are realizable with xor / FROST keygen / Taproot keygen and were compared byte-exactly with the real SSID" % (res["realized"], res["evaluations"]))
    if res["samples"]:
        rep.sample({"kind": "tag vector", "tuple": res["samples"][0]})
    # ---- 2. the design: foreign / stale / re-addressed messages never change a party (Handler.tla, Isolation)
    # (shape m with three foreign messages did not finish in an hour)
    for shape, frn in ([("m", 2), ("b,b", 1)] if quick else [("b,bm", 1), ("m", 2), ("b,b", 1)]):
        R, sb, sm = hc.SHAPES[shape]
        consts = hc.handler_consts(["a", "b", "c"], ["a", "b", "c"], R, sb, sm, foreign=frn)
        r = vlib.tlc(wd, "Handler", vlib.cfg(consts, spec="Spec", invariants=["TypeOK", "HonestNeverAborts", "NoDeadlock"],
                                           properties=["Isolation", "Completes"]), timeout=3000)
        vlib.tlc_must_pass(r, "Handler.tla foreign traffic shape %s" % shape)
        states += r["distinct"]; trans += r["generated"]
        rep.notes.append("Handler.tla, 3 honest parties, shape %s, %d foreign / re-addressed / malformed-header injections at every point: %d distinct states, Isolation holds" % (shape, frn, r["distinct"]))
    # ---- 3. cross-session replay and relabelled proofs on real sessions
    scen = []
    def add(**kw):
        kw["id"] = len(scen); kw.setdefault("byz", ""); scen.append(kw)
    reps = 3 if quick else 12
    for k in range(reps):
        for proto, n, t in (("frost-keygen", 3, 1), ("taproot-keygen", 3, 1), ("xor", 3, 0), ("toy:b,bm,b", 3, 1), ("frost-sign", 3, 2)):
            for diff in ("sid", "proto", "parties", "threshold"):
                add(kind="foreign", proto=proto, n=n, t=t, diff=diff, sched=sd * 97 + k * 13 + len(scen))
    # the two-party handler (Doerner) has its own header filter
    for k in range(4 if quick else 16):
        for proto in ("doerner-keygen", "doerner-sign", "doerner-refresh"):
            add(kind="foreign", proto=proto, n=2, t=1, diff="sid", sched=sd * 97 + k * 13 + len(scen))
    for k in range(1 if quick else 6):
        for proto in ("cmp-sign",) if quick else ("cmp-sign", "cmp-presign", "cmp-refresh"):
            for diff in ("sid", "material", "message"):
                add(kind="foreign", proto=proto, n=2 if quick else 3, t=1, diff=diff, sched=sd * 97 + k * 13 + len(scen))
    if not quick:
        for diff in ("sid", "message", "presig"):
            add(kind="foreign", proto="cmp-presign-online", n=2, t=1, diff=diff, sched=sd + len(scen))
    # a proof-carrying message replayed under another sender's name
    relab = [("frost-keygen", 3, 1, 2, True), ("frost-keygen", 3, 1, 3, False), ("taproot-keygen", 3, 1, 2, True), ("frost-sign", 3, 2, 3, True),
             ("frost-refresh", 3, 1, 3, False)]
    if not quick:
        relab += [("cmp-sign", 3, 2, 2, False), ("cmp-sign", 3, 2, 3, False), ("cmp-keygen", 3, 1, 4, True)]
    for proto, n, t, rd, b in relab:
        for k in range(4 if quick else 10):
            names = ["a", "b", "c"]
            frm = names[k % 3]; byz = names[(k + 1 + k // 3) % 3]
            if frm == byz:
                byz = names[(names.index(frm) + 1) % 3]
            add(kind="relabel", proto=proto, n=n, t=t, round=rd, b=b, byz=byz, **{"from": frm}, sched=sd * 31 + k * 7 + len(scen))
    outcomes, problems, stats = hc.run_adversarial(wd, scen, "iso", sd, shards=12)
    states += stats["distinct"]; trans += stats["generated"]
    reached = 0
    kinds = {}
    for i, o in outcomes.items():
        s = scen[i]
        if o["applicable"] and o.get("reached"):
            reached += 1
            kinds[(s["kind"], s["proto"], s.get("diff") or s.get("round"))] = 1
        for v in o.get("viol") or []:
            if v["prop"] == "C09":
                rep.violation({"proto": s["proto"], "what": v["what"]}, "%s, scenario %s: %s" % (s["proto"], json.dumps({k: s[k] for k in s if k not in ("id", "sched")}, sort_keys=True), v["detail"]), {"scenario": s, "violation": v})
    for pr in problems:
        g = pr["group"]
        rep.violation({"proto": g["proto"], "what": "trace-" + (pr["violated"] or "rejected")},
                      "%s: a recorded real execution with foreign traffic is not a behaviour of Handler.tla: %s at trace line %s" % (g["proto"], pr["violated"] or "no action matches", pr["line"]),
                      {"event": pr["event"], "scenario": pr["scenario"], "trace_file": g["file"]})
    rep.add_counts(evaluations=len(scen))
    for s in scen[:2]:
        rep.sample({"scenario": s, "outcome": outcomes.get(s["id"])})
    rep.cov.update({"states": states, "transitions": trans, "traces_validated_against_impl": stats["traces"] + res["realized"],
                    "scenarios_reached": reached, "distinct_nontrivial": len(kinds), "trace_lines": stats["lines"],
                    "rule": "tag vectors: every parameter tuple of Session.tla realizable with a real start function is compared byte-exactly with the real SSID, and distinct tuples must give distinct SSIDs; cross-session replay: messages of a real session differing in exactly one of session id, protocol, participant set, threshold, key material, message, presignature are presented to the parties of another real session at random points (CanAccept must be false, nothing may change, the session must complete) and the recorded calls are validated against Handler.tla; relabelled proofs: a real message replayed under another sender's name must not let the recipient complete"})
    if reached < 2:
        raise vlib.Inconclusive("no foreign message reached a party")
    return rep.finish()
