"""Shared pieces for the handler-family checks (C03-C07, C09, C17)."""
import json, os
import vlib
from vlib import Raw

# shape name -> (R, ShapeB, ShapeM); the real protocols are instances
SHAPES = {
    "m": (2, set(), {2}),                       # xor
    "b,bm": (3, {2, 3}, {3}),                   # FROST keygen / refresh
    "b,b": (3, {2, 3}, set()),                  # FROST sign
    "bm,bm": (3, {2, 3}, {2, 3}),
    "b,b,bm,b": (5, {2, 3, 4, 5}, {4}),         # CMP keygen / refresh
    "bm,bm,bm,b": (5, {2, 3, 4, 5}, {2, 3, 4}), # CMP sign
    "b,m": (3, {2}, {3}),
    "m,b": (3, {3}, {2}),
}


def viewdep(R, shapeB):
    """rounds whose content may depend on earlier broadcasts: every round after the first broadcast round"""
    if not shapeB:
        return set()
    first = min(shapeB)
    return {r for r in range(first + 1, R + 1)}


def handler_consts(parties, honest, R, shapeB, shapeM, variants=("h",), inject=0, dup=0, foreign=0,
                   echo_first=True, kindflip=False, stop=False, proto_aborts=False, echo_check=True):
    return {
        "P": set(parties), "Honest": set(honest), "R": R,
        "ShapeB": set(shapeB), "ShapeM": set(shapeM), "ViewDep": viewdep(R, shapeB),
        "Variants": set(variants), "MaxInject": inject, "MaxDup": dup, "MaxForeign": foreign,
        "EchoFirst": echo_first, "EchoCheck": echo_check, "KindFlip": kindflip, "StopAllowed": stop, "ProtoAborts": proto_aborts,
    }


TRACE_INVARIANTS = ["TypeOK", "BlameSound", "EchoNamesNobody", "NoticeBlame", "NoSplit", "NoBadAccepted", "WrongNeverAccepted"]


def validate_trace(wd, trace_file, parties, honest, R, shapeB, shapeM, extra_invariants=(), timeout=900):
    """Run TLC on HandlerTrace.tla for the recorded ndjson trace. Returns the tlc() dict plus 'lines'."""
    consts = handler_consts(parties, honest, R, shapeB, shapeM)
    consts["TraceFile"] = os.path.basename(trace_file)
    c = vlib.cfg(consts, spec="TraceSpec", invariants=TRACE_INVARIANTS + list(extra_invariants),
                 postcondition="TraceAccepted")
    r = vlib.tlc(wd, "HandlerTrace", c, files=[trace_file], workers=1, timeout=timeout)
    r["lines"] = sum(1 for _ in open(trace_file))
    return r


def validate_twoparty(wd, trace_file, parties, honest, R, extra_invariants=()):
    """Doerner sessions run on the TwoPartyHandler: validated against TwoParty.tla"""
    consts = {"P": set(parties), "Honest": set(honest), "R": R, "First": sorted(parties)[0], "Variants": {"h", "mut", "junk"},
              "MaxInject": 0, "MaxDup": 0, "StopAllowed": True, "TraceFile": os.path.basename(trace_file)}
    c = vlib.cfg(consts, spec="TraceSpec", invariants=["TypeOK", "NoBadAccepted", "WrongNeverAccepted"] + list(extra_invariants),
                 postcondition="TraceAccepted")
    r = vlib.tlc(wd, "TwoPartyTrace", c, files=[trace_file], workers=1, timeout=900)
    r["lines"] = sum(1 for _ in open(trace_file))
    return r


def trace_line(trace_file, n):
    with open(trace_file) as fh:
        for i, line in enumerate(fh, 1):
            if i == n:
                return json.loads(line)
    return None


# ----------------------------------------------------------------------------------------------
# adversarial runs (hadv) + trace validation

_disc = {}


def discover(proto, n, t, seed=0):
    """message structure of a real protocol: R, shapes and per (round, kind) the leaves of the CBOR content"""
    key = (proto, n, t)
    if key not in _disc:
        p = vlib.run([os.path.join(vlib.HBIN, "hadv"), "-mode", "discover", "-proto", proto, "-n", str(n), "-t", str(t), "-seed", str(seed)], timeout=600)
        if p.returncode != 0:
            raise vlib.Inconclusive("hadv discover failed for %s: %s" % (proto, (p.stdout + p.stderr)[-1500:]))
        _disc[key] = json.loads(p.stdout.strip().splitlines()[-1])
    return _disc[key]


ADV_VARIANTS = ("h", "e1", "e2", "mut", "junk")


def _limit_mem():
    import resource
    lim = 12 * 1024 ** 3
    resource.setrlimit(resource.RLIMIT_AS, (lim, lim))


def run_adversarial(wd, scenarios, tag, seed=0, timeout=3000, shards=1):
    """Runs hadv on the scenarios (list of dicts, each with a unique 'id') in parallel shards, validates every trace
    group with TLC. A shard whose process dies (fatal runtime error in the code under test: out of memory, stack
    overflow, deadlock) is resumed after the scenario that killed it, which is reported as an outcome with a
    'process-killed' violation. Returns (outcomes by id, list of trace problems, tlc stats)."""
    import subprocess, glob, time
    hadv = os.path.join(vlib.HBIN, "hadv")

    def start(sh, gen, part):
        t = "%s%d_%d_" % (tag, sh, gen)
        sf = os.path.join(wd, t + "scen.jsonl")
        with open(sf, "w") as fh:
            for s in part:
                fh.write(json.dumps(s) + "\n")
        p = subprocess.Popen([hadv, "-scen", sf, "-out", wd, "-tag", t, "-seed", str(seed)], env=vlib.GOENV,
                             stdout=subprocess.PIPE, stderr=subprocess.PIPE, text=True, preexec_fn=_limit_mem)
        return {"sh": sh, "gen": gen, "part": part, "tag": t, "p": p}

    running = [start(sh, 0, scenarios[sh::shards]) for sh in range(shards) if scenarios[sh::shards]]
    outcomes, groups = {}, []
    deadline = time.time() + timeout
    while running:
        job = running.pop(0)
        try:
            out, err = job["p"].communicate(timeout=max(1, deadline - time.time()))
        except subprocess.TimeoutExpired:
            job["p"].kill()
            for j in running:
                j["p"].kill()
            raise vlib.Inconclusive("hadv timed out")
        t = job["tag"]
        of = os.path.join(wd, t + "_outcomes.jsonl")
        if os.path.exists(of):
            for line in open(of):
                if line.strip():
                    o = json.loads(line)
                    outcomes[o["id"]] = o
        for mf in glob.glob(os.path.join(wd, t + "_*.ndjson.meta")):
            groups.append(json.load(open(mf)))
        if job["p"].returncode == 0:
            continue
        if job["p"].returncode == 3:
            # a call that never returned was recorded (violation "hang"); the shard goes on in a fresh process
            rest = [s for s in job["part"] if s["id"] not in outcomes]
            if rest and job["gen"] < 40:
                running.append(start(job["sh"], job["gen"] + 1, rest))
            continue
        prog = os.path.join(wd, t + "_progress")
        cur = open(prog).read().strip() if os.path.exists(prog) else ""
        if job["p"].returncode == 2 and "hadv:" in err:
            raise vlib.Inconclusive("hadv failed: %s" % err[-2000:])
        if not cur.isdigit():
            raise vlib.Inconclusive("hadv died without progress information: %s" % (out + err)[-2000:])
        cur = int(cur)
        why = (err.strip().splitlines() or ["killed"])[0][:200]
        site = ""
        for l in err.splitlines():
            l = l.strip()
            if "multi-party-sig/" in l and "verifharness" not in l and "(" in l and not l.startswith("/"):
                site = l[:l.rfind("(")].replace("github.com/taurusgroup/multi-party-sig/", "")
                break
        outcomes[cur] = {"id": cur, "applicable": True, "reached": True, "status": {}, "events": 0,
                         "viol": [{"prop": "C05", "what": "process-killed", "site": site,
                                   "detail": "the whole process died while an honest party handled this input: %s (rc=%s)" % (why, job["p"].returncode)}]}
        rest = [s for s in job["part"] if s["id"] not in outcomes]
        if rest and job["gen"] < 40:
            running.append(start(job["sh"], job["gen"] + 1, rest))
    # merge the shards' trace files per (proto, n, byz): one TLC configuration per group
    merged = {}
    reset = json.dumps({"ev": "Reset", "i": "", "can": False, "ign": False, "post": {"rnd": 0, "st": "", "ek": "", "culp": [], "cur": 0},
                        "em": [], "trace": -1, "res": "none"})
    for g in groups:
        key = (g["proto"], g["n"], g["byz"])
        if key not in merged:
            mf = os.path.join(wd, "%s_%s_%d_%s.merged.ndjson" % (tag, g["proto"].replace(":", "_").replace(",", "_"), g["n"], g["byz"]))
            merged[key] = dict(g, file=mf, traces=0, lines=0)
            open(mf, "w").close()
        m = merged[key]
        with open(m["file"], "a") as out, open(g["file"]) as inp:
            if m["lines"] > 0:
                out.write(reset + "\n")
                m["lines"] += 1
            for line in inp:
                out.write(line)
                m["lines"] += 1
        m["traces"] += g["traces"]
    problems, stats = [], {"distinct": 0, "generated": 0, "traces": 0, "lines": 0}
    by_id = {s["id"]: s for s in scenarios}

    def validate(g):
        anyscen = next(s for s in scenarios if s["proto"] == g["proto"] and s["n"] == g["n"])
        d = discover(g["proto"], g["n"], anyscen.get("t", 1), seed)
        if g["proto"].startswith("doerner"):
            return g, validate_twoparty(wd, g["file"], g["parties"], g["honest"], d["R"])
        consts = handler_consts(g["parties"], g["honest"], d["R"], d["shapeB"] or [], d["shapeM"] or [],
                                variants=ADV_VARIANTS, proto_aborts=True)
        consts["TraceFile"] = os.path.basename(g["file"])
        c = vlib.cfg(consts, spec="TraceSpec", invariants=TRACE_INVARIANTS, postcondition="TraceAccepted")
        return g, vlib.tlc(wd, "HandlerTrace", c, files=[g["file"]], workers=1, timeout=900)

    # make sure discover() results are cached before going parallel
    for g in merged.values():
        anyscen = next(s for s in scenarios if s["proto"] == g["proto"] and s["n"] == g["n"])
        discover(g["proto"], g["n"], anyscen.get("t", 1), seed)
    from concurrent.futures import ThreadPoolExecutor
    import re
    with ThreadPoolExecutor(max_workers=8) as ex:
        results = list(ex.map(validate, merged.values()))
    for g, r in results:
        stats["distinct"] += r["distinct"]; stats["generated"] += r["generated"]
        stats["lines"] += g["lines"]
        if r["ok"]:
            stats["traces"] += g["traces"]
            continue
        if r.get("timeout"):
            raise vlib.Inconclusive("trace validation timed out for %s" % g["file"])
        line = r["rejected_at"]
        if not line:
            ls = re.findall(r"/\\ l = (\d+)", r["out"])
            line = int(ls[-1]) - 1 if ls else None     # the state after consuming line l-1 violates the invariant
        ev = trace_line(g["file"], line) if line else None
        if not r["violated"] and not r["rejected_at"]:
            raise vlib.Inconclusive("TLC failed on %s: %s" % (g["file"], r["out"][-1500:]))
        problems.append({"group": g, "violated": r["violated"], "line": line, "event": ev,
                         "scenario": by_id.get(ev["trace"]) if ev else None, "tlc": r["dir"]})
    return outcomes, problems, stats


def fault_catalogue(wd, proto, n, t, seed=0):
    """TLC enumerates the deviation catalogue of a real protocol from its discovered message structure."""
    d = discover(proto, n, t, seed)
    names = ["a", "b", "c", "d", "e", "f"][:n]
    slots = []
    for s in d["slots"]:
        kinds = "<<" + ", ".join('"%s"' % l["Kind"] for l in s["leaves"]) + ">>"
        slots.append('[round |-> %d, b |-> %s, kinds |-> %s]' % (s["round"], "TRUE" if s["b"] else "FALSE", kinds))
    data = "---- MODULE FaultCatData ----\nProto == \"%s\"\nParties == %s\nR == %d\nShapeB == %s\nShapeM == %s\nSlots == <<%s>>\n====\n" % (
        proto, vlib.tla(names), d["R"], vlib.tla(set(d["shapeB"] or [])), vlib.tla(set(d["shapeM"] or [])), ",\n  ".join(slots))
    dd = os.path.join(wd, "cat_%s_%d" % (proto.replace(":", "_").replace(",", "_"), n))
    os.makedirs(dd, exist_ok=True)
    df = os.path.join(dd, "FaultCatData.tla")
    with open(df, "w") as fh:
        fh.write(data)
    r = vlib.tlc(wd, "FaultCat", "INIT Init\nNEXT Next\nCHECK_DEADLOCK FALSE\n", files=[df], workers=1, timeout=900)
    vlib.tlc_must_pass(r, "FaultCat.tla for %s" % proto)
    cat = {"fault": vlib.printed(r["out"], "FLT"), "hdr": vlib.printed(r["out"], "HDR"), "equiv": vlib.printed(r["out"], "EQV"),
           "R": d["R"], "shapeB": d["shapeB"] or [], "shapeM": d["shapeM"] or [], "tlc": r, "slots": d["slots"]}
    return cat


# ---------------------------------------------------------------------------------------------------
# every causal delivery order of ONE handler with one failing message (HandlerLocal.tla, bad mode), replayed
def bad_orders(wd, rep, shape, n, proto, seed, slots=None, dup=0):
    """For each slot (sender, round, kind) of the shape: TLC enumerates every delivery order in which that slot's message
    fails verification, with the end state the focus party must reach; hsim replays each order on the real handler.
    Returns (states, generated, histories, failures)."""
    names = ["a", "b", "c", "d"][:n]
    R, sb, sm = SHAPES[shape]
    allslots = [(j, r, True) for j in names[1:] for r in sb] + [(j, r, False) for j in names[1:] for r in sm]
    if slots is not None:
        allslots = [x for k, x in enumerate(allslots) if k in slots]
    hsim = os.path.join(vlib.HBIN, "hsim")
    states = gen = nh = 0
    fails = []
    for (j, r, b) in allslots:
        consts = handler_consts(names, ["a"], R, sb, sm, variants=("h", "bad"), dup=dup)
        consts.update({"F": "a", "Emit": True, "BadFrom": j, "BadRd": r, "BadB": b})
        c = vlib.cfg(consts, spec="LSpec", invariants=["LBadNeverDone", "LBadBlamed", "EmitBad"], properties=["LBadEnds"])
        res = vlib.tlc(wd, "HandlerLocal", c, workers=1, timeout=3000)
        vlib.tlc_must_pass(res, "HandlerLocal.tla bad mode %s slot %s/%d/%s" % (shape, j, r, b))
        states += res["distinct"]; gen += res["generated"]
        hists = vlib.printed(res["out"], "HISTB")
        if not hists:
            raise vlib.Inconclusive("HandlerLocal (bad mode) emitted no history for %s %s/%d/%s" % (shape, j, r, b))
        hf = os.path.join(wd, "badhist_%s_%s_%d_%s.jsonl" % (shape.replace(",", "_"), j, r, "b" if b else "m"))
        with open(hf, "w") as fh:
            for h in hists:
                fh.write(json.dumps(h) + "\n")
        out = hf + ".out.json"
        p = vlib.run([hsim, "orders", "-proto", proto, "-n", str(n), "-hist", hf, "-out", out, "-seed", str(seed),
                      "-bad", "%s/%d/%s" % (j, r, "true" if b else "false")], timeout=3000)
        if p.returncode != 0:
            raise vlib.Inconclusive("hsim orders (bad mode) failed: %s" % (p.stdout + p.stderr)[-2000:])
        o = json.load(open(out))
        nh += o["evaluations"]
        for f in o["failures"] or []:
            f["slot"] = "%s/%d/%s" % (j, r, "broadcast" if b else "p2p")
            fails.append(f)
    return states, gen, nh, fails
