"""Shared pieces for the handler-family checks (C03-C07, C09, C17)."""
import json, os
import vlib
from vlib import Raw

# shape name -> (R, ShapeB, ShapeM); the real protocols are instances
SHAPES = {
    "m": (2, set(), {2}),                       # xor
    "b,bm": (3, {2, 3}, {3}),                   # FROST keygen / refresh
    "b,b": (3, {2, 3}, set()),                  # FROST sign
    "bm,bm": (3, {2, 3}, {2, 3}),
    "b,b,bm,b": (5, {2, 3, 4, 5}, {4}),         # CMP keygen / refresh
    "bm,bm,bm,b": (5, {2, 3, 4, 5}, {2, 3, 4}), # CMP sign
    "b,m": (3, {2}, {3}),
    "m,b": (3, {3}, {2}),
}


def viewdep(R, shapeB):
    """rounds whose content may depend on earlier broadcasts: every round after the first broadcast round"""
    if not shapeB:
        return set()
    first = min(shapeB)
    return {r for r in range(first + 1, R + 1)}


def handler_consts(parties, honest, R, shapeB, shapeM, variants=("h",), inject=0, dup=0, foreign=0,
                   echo_first=True, kindflip=False, stop=False):
    return {
        "P": set(parties), "Honest": set(honest), "R": R,
        "ShapeB": set(shapeB), "ShapeM": set(shapeM), "ViewDep": viewdep(R, shapeB),
        "Variants": set(variants), "MaxInject": inject, "MaxDup": dup, "MaxForeign": foreign,
        "EchoFirst": echo_first, "KindFlip": kindflip, "StopAllowed": stop,
    }


TRACE_INVARIANTS = ["TypeOK", "BlameSound", "EchoNamesNobody", "NoticeBlame", "NoSplit", "NoBadAccepted"]


def validate_trace(wd, trace_file, parties, honest, R, shapeB, shapeM, extra_invariants=(), timeout=900):
    """Run TLC on HandlerTrace.tla for the recorded ndjson trace. Returns the tlc() dict plus 'lines'."""
    consts = handler_consts(parties, honest, R, shapeB, shapeM)
    consts["TraceFile"] = os.path.basename(trace_file)
    c = vlib.cfg(consts, spec="TraceSpec", invariants=TRACE_INVARIANTS + list(extra_invariants),
                 postcondition="TraceAccepted")
    r = vlib.tlc(wd, "HandlerTrace", c, files=[trace_file], workers=1, timeout=timeout)
    r["lines"] = sum(1 for _ in open(trace_file))
    return r


def trace_line(trace_file, n):
    with open(trace_file) as fh:
        for i, line in enumerate(fh, 1):
            if i == n:
                return json.loads(line)
    return None
