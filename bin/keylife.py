"""Shared machinery of C01, C02, C08, C14, C15: KeyLife.tla / ShamirLaws.tla (TLC) + klife (real protocols)."""
import json, os, random, subprocess
import vlib
from vlib import Raw

FRESH = {0: "FreshT0", 1: "FreshT1", 2: "FreshT2", 3: "FreshT3"}
REF = {0: "RefT0", 1: "RefT1", 2: "RefT2", 3: "RefT3"}


def shamir_laws(wd, rep, q, nmax, slack=0, timeout=1500):
    # (a cfg file cannot hold a negative number: the value -1 is an operator of the module)
    c = vlib.cfg({"Q": q, "NMax": nmax, "Slack": slack if slack >= 0 else "<- SlackMinus1"}, init="Init", next_="Next",
                 invariants=["AnyTplus1Reconstructs", "SignShareSum", "TSharesHideKey", "DegreeExactlyT", "RefreshKeepsKey", "MixedEpochsMiss",
                             "DeriveShiftsKey", "NegateConsistent"])
    return vlib.tlc(wd, "ShamirLaws", c, timeout=timeout)


def histories(wd, n, t, additive=False, eveny=False, maxops=2, indices=(0, 1), kinds=("sign", "reconstruct"), subset_refresh=False):
    """All complete histories of KeyLife.tla for this configuration (TLC), as dicts."""
    consts = {"Q": 7, "XS": set(range(1, n + 1)), "T": t, "Additive": additive, "EvenY": eveny,
              "FreshPolys": "<- " + FRESH[t], "RefPolys": "<- " + REF.get(t, "RefT1"), "Indices": set(indices),
              "MaxOps": maxops, "Kinds": set(kinds), "SubsetRefresh": subset_refresh, "EmitHist": True}
    c = vlib.cfg(consts, spec="Spec",
                 invariants=["AllVersionsConsistent", "RefreshKeepsKey", "DeriveMovesKey", "EvenKeys", "ProbeSound", "Emit"])
    r = vlib.tlc(wd, "KeyLife", c, workers=1, timeout=1500)
    vlib.tlc_must_pass(r, "KeyLife.tla n=%d t=%d additive=%s" % (n, t, additive))
    hs = vlib.printed(r["out"], "HIST")
    # the same history is printed for every choice of the dealt polynomials: keep one
    seen, uniq = set(), []
    for h in hs:
        k = json.dumps(h, sort_keys=True)
        if k not in seen:
            seen.add(k); uniq.append(h)
    return uniq, r


def has_op(h, op):
    return any(o["op"] == op for o in h["ops"])


def run_worlds(wd, worlds, seed, timeout=3000):
    """worlds: list of dict(scheme,n,t,ids,hists,deal). Runs one klife process per world in parallel."""
    klife = os.path.join(vlib.HBIN, "klife")
    procs = []
    for i, w in enumerate(worlds):
        hf = os.path.join(wd, "kl_%d_%s_%d_%d_%s.jsonl" % (i, w["scheme"], w["n"], w["t"], w["ids"]))
        with open(hf, "w") as fh:
            for h in w["hists"]:
                fh.write(json.dumps(h) + "\n")
        out = hf + ".out.json"
        cmd = [klife, "-scheme", w["scheme"], "-n", str(w["n"]), "-t", str(w["t"]), "-ids", w["ids"], "-hist", hf, "-out", out, "-seed", str(seed)]
        if w.get("deal"):
            cmd.append("-deal")
        procs.append((w, out, subprocess.Popen(cmd, env=vlib.GOENV, stdout=subprocess.PIPE, stderr=subprocess.PIPE, text=True)))
    results = []
    for w, out, p in procs:
        try:
            so, se = p.communicate(timeout=timeout)
        except subprocess.TimeoutExpired:
            p.kill()
            raise vlib.Inconclusive("klife timed out for %s" % w["scheme"])
        if p.returncode != 0:
            raise vlib.Inconclusive("klife failed for %s n=%d t=%d: %s" % (w["scheme"], w["n"], w["t"], (so + se)[-2000:]))
        results.append((w, json.load(open(out))))
    return results


def sample(hists, k, seed, tag):
    if len(hists) <= k:
        return list(hists)
    rnd = random.Random("%s/%d" % (tag, seed))
    return rnd.sample(hists, k)


def report(rep, results, props):
    """turn klife results into violations of the given properties; returns stats"""
    stats = {"evaluations": 0, "sessions": 0, "probes": 0}
    others = {}
    for w, res in results:
        stats["evaluations"] += res["evaluations"]
        for k, v in (res.get("stats") or {}).items():
            stats[k] = stats.get(k, 0) + v
        for v in res.get("violations") or []:
            if v["prop"] in props:
                rep.violation({"scheme": w["scheme"], "what": v["what"]},
                              "%s n=%d t=%d ids=%s: %s" % (w["scheme"], w["n"], w["t"], w["ids"], v["detail"]),
                              {"violation": v, "history": json.loads(v["hist"]) if v.get("hist") else None})
            else:
                others[v["prop"] + ":" + v["what"]] = others.get(v["prop"] + ":" + v["what"], 0) + 1
        if res.get("samples"):
            rep.sample({"scheme": w["scheme"], "n": w["n"], "t": w["t"], "ids": w["ids"], "history": res["samples"][0]})
    if others:
        rep.notes.append("observations belonging to other properties (reported by their own checks): %s" % others)
    return stats
